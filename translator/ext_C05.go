//go:build ext_C05

// translator extension for C05: what the exit status of `pint lint` / `pint ci` hinges on, regenerated from the Go AST
// of cmd/pint into coq/Gen/C05.v:
//   flag_defaults        (command, flag name, default value literal) of every cli flag of the root, lint and ci commands
//   lint_returns / ci_returns / setup_returns
//                        every return statement of actionLint / actionCI / actionSetup in source order:
//                        (returns nil?, placed after the checkRules call?) — the exit paths
//   lint_threshold / ci_threshold
//                        the normalised shape of the threshold decision: comparison operator between the severity key of
//                        the CountBySeverity loop and the parsed --fail-on value, how hits are accumulated, how the
//                        accumulator turns into the returned error
//   main_exit_code       the os.Exit argument used by main() when the action returned an error
// Fails closed: any shape it does not recognise is a fatal error naming the source position.
package main

import (
	"flag"
	"fmt"
	"go/ast"
	"go/token"
	"path/filepath"
	"strconv"
	"strings"
)

func main() {
	srcDir := flag.String("src", "/repo", "pint source tree")
	outPath := flag.String("out", "C05.v", "output .v")
	jsonPath := flag.String("json", "", "output json")
	flag.Parse()

	o := newOut("C05 exit paths")
	p := loadPkg(filepath.Join(*srcDir, "cmd", "pint"))
	strs := stringIdents(p)

	// ---- flag defaults
	var rows []string
	addFlags := func(cmd string, lit *ast.CompositeLit) {
		fl := kvOf(lit, "Flags")
		if fl == nil {
			fatal("command %q at %s has no Flags field", cmd, pos(lit))
		}
		fcl, ok := fl.(*ast.CompositeLit)
		if !ok {
			fatal("Flags of %q at %s is not a composite literal", cmd, pos(fl))
		}
		for _, e := range fcl.Elts {
			ue, ok := e.(*ast.UnaryExpr)
			if !ok {
				fatal("flag at %s: expected &cli.XFlag{...}", pos(e))
			}
			cl, ok := ue.X.(*ast.CompositeLit)
			if !ok {
				fatal("flag at %s: expected &cli.XFlag{...}", pos(e))
			}
			kind := selName(cl.Type)
			nameE := kvOf(cl, "Name")
			if nameE == nil {
				fatal("flag at %s has no Name", pos(cl))
			}
			name := resolveStr(strs, nameE)
			def := ""
			if v := kvOf(cl, "Value"); v != nil {
				switch x := v.(type) {
				case *ast.BasicLit:
					if x.Kind == token.STRING {
						def = strLit(x)
					} else {
						def = x.Value
					}
				case *ast.Ident:
					def = x.Name // true / false
				default:
					def = "<expr:" + oneLine(src(v)) + ">"
				}
			} else {
				def = "<zero>"
			}
			rows = append(rows, fmt.Sprintf("(%s, %s, %s, %s)", cs(cmd), cs(name), cs(kind), cs(def)))
		}
	}
	for _, c := range []struct{ cmd, v string }{{"lint", "lintCmd"}, {"ci", "ciCmd"}} {
		lit := findCommandVar(p, c.v)
		nm := kvOf(lit, "Name")
		if nm == nil || resolveStr(strs, nm) != c.cmd {
			fatal("%s at %s is not the %q command", c.v, pos(lit), c.cmd)
		}
		addFlags(c.cmd, lit)
	}
	app := findFunc(p, "", "newApp")
	if app == nil {
		fatal("newApp not found")
	}
	var appLit *ast.CompositeLit
	ast.Inspect(app.Body, func(n ast.Node) bool {
		if r, ok := n.(*ast.ReturnStmt); ok && len(r.Results) == 1 && appLit == nil {
			if ue, ok := r.Results[0].(*ast.UnaryExpr); ok {
				if cl, ok := ue.X.(*ast.CompositeLit); ok {
					appLit = cl
				}
			}
		}
		return true
	})
	if appLit == nil {
		fatal("newApp does not return &cli.Command{...}")
	}
	addFlags("", appLit)
	o.b.WriteString("(* (command, flag, kind, default) *)\n")
	o.def("flag_defaults", "list (string * string * string * string)", clist(rows))

	// ---- exit paths
	for _, f := range []struct{ fn, def string }{{"actionLint", "lint_returns"}, {"actionCI", "ci_returns"}, {"actionSetup", "setup_returns"}} {
		fd := findFunc(p, "", f.fn)
		if fd == nil {
			fatal("%s not found", f.fn)
		}
		o.b.WriteString("(* every return of " + f.fn + " in source order: (returns a nil error, placed after the call of checkRules) *)\n")
		o.def(f.def, "list (bool * bool)", clist(returnsOf(fd)))
	}

	// ---- stage sequence: which stage of the model each return statement belongs to, in source order
	o.b.WriteString("(* the stage each return statement of actionLint / actionCI belongs to, in source order (\"nil\" = returns nil) *)\n")
	o.def("lint_stage_seq", "list string", cstrs(stagesOf(findFunc(p, "", "actionLint"), strs)))
	o.def("ci_stage_seq", "list string", cstrs(stagesOf(findFunc(p, "", "actionCI"), strs)))

	// ---- threshold decisions
	o.b.WriteString("(* (operator of `severity OP fail-on`, accumulation, final test): the decision between the last error return and `return nil` *)\n")
	o.def("lint_threshold", "string * string * string", thresholdOf(findFunc(p, "", "actionLint"), strs))
	o.def("ci_threshold", "string * string * string", thresholdOf(findFunc(p, "", "actionCI"), strs))

	// ---- Summary.CountBySeverity: every report of the summary counts once, under its own severity
	o.b.WriteString("(* shape of reporter.Summary.CountBySeverity *)\n")
	o.def("count_by_severity_shape", "string", cs(countShape(loadPkg(filepath.Join(*srcDir, "internal", "reporter")))))

	// ---- main: error => os.Exit(code)
	mf := findFunc(p, "", "main")
	if mf == nil {
		fatal("main not found")
	}
	code := ""
	ast.Inspect(mf.Body, func(n ast.Node) bool {
		is, ok := n.(*ast.IfStmt)
		if !ok {
			return true
		}
		if oneLine(src(is.Cond)) != "err != nil" {
			return true
		}
		ast.Inspect(is.Body, func(m ast.Node) bool {
			if ce, ok := m.(*ast.CallExpr); ok && oneLine(src(ce.Fun)) == "os.Exit" && len(ce.Args) == 1 {
				if bl, ok := ce.Args[0].(*ast.BasicLit); ok && bl.Kind == token.INT {
					code = bl.Value
				}
			}
			return true
		})
		return true
	})
	if code == "" {
		fatal("main: no `if err != nil { ... os.Exit(<int>) }` found")
	}
	if _, err := strconv.Atoi(code); err != nil {
		fatal("main: os.Exit argument %s", code)
	}
	o.def("main_exit_code", "Z", "("+code+")%Z")

	o.write(*outPath, *jsonPath)
}

// countShape recognises
//     m := map[checks.Severity]int{}
//     for _, R := range s.Reports() | s.reports {
//         [ if _, ok := m[R.Problem.Severity]; !ok { m[R.Problem.Severity] = 0 } ]
//         m[R.Problem.Severity]++   |   m[R.Problem.Severity] += 1
//     }
//     return m
// and nothing else inside the loop (no filter, no continue, no other key, no weight).
func countShape(p *pkgFiles) string {
	fd := findFunc(p, "Summary", "CountBySeverity")
	if fd == nil {
		fatal("Summary.CountBySeverity not found")
	}
	var loop *ast.RangeStmt
	mapVar := ""
	for _, st := range fd.Body.List {
		switch x := st.(type) {
		case *ast.AssignStmt:
			if len(x.Lhs) == 1 && len(x.Rhs) == 1 {
				r := oneLine(src(x.Rhs[0]))
				if strings.HasPrefix(r, "map[checks.Severity]int") || strings.HasPrefix(r, "make(map[checks.Severity]int") {
					mapVar = selName(x.Lhs[0])
					continue
				}
			}
			fatal("CountBySeverity: statement `%s` at %s not understood", oneLine(src(st)), pos(st))
		case *ast.RangeStmt:
			if loop != nil {
				fatal("CountBySeverity: two loops")
			}
			loop = x
		case *ast.ReturnStmt:
			if len(x.Results) != 1 || oneLine(src(x.Results[0])) != mapVar {
				fatal("CountBySeverity: return at %s does not return the map", pos(x))
			}
		default:
			fatal("CountBySeverity: statement `%s` at %s not understood", oneLine(src(st)), pos(st))
		}
	}
	if loop == nil || mapVar == "" {
		fatal("CountBySeverity: no map / loop found")
	}
	rx := oneLine(src(loop.X))
	if rx != "s.Reports()" && rx != "s.reports" {
		fatal("CountBySeverity: loop at %s ranges over %s", pos(loop), rx)
	}
	if loop.Value == nil {
		fatal("CountBySeverity: loop at %s has no value variable", pos(loop))
	}
	key := mapVar + "[" + selName(loop.Value) + ".Problem.Severity]"
	incs := 0
	for _, st := range loop.Body.List {
		switch x := st.(type) {
		case *ast.IncDecStmt:
			if x.Tok != token.INC || oneLine(src(x.X)) != key {
				fatal("CountBySeverity: `%s` at %s not understood", oneLine(src(st)), pos(st))
			}
			incs++
		case *ast.AssignStmt:
			if x.Tok == token.ADD_ASSIGN && len(x.Lhs) == 1 && oneLine(src(x.Lhs[0])) == key && len(x.Rhs) == 1 && oneLine(src(x.Rhs[0])) == "1" {
				incs++
				continue
			}
			fatal("CountBySeverity: `%s` at %s not understood", oneLine(src(st)), pos(st))
		case *ast.IfStmt:
			// only the zero initialisation of a missing key is allowed
			ok := x.Init != nil && oneLine(src(x.Init)) == "_, ok := "+key && oneLine(src(x.Cond)) == "!ok" && x.Else == nil &&
				len(x.Body.List) == 1 && oneLine(src(x.Body.List[0])) == key+" = 0"
			if !ok {
				fatal("CountBySeverity: conditional `%s` at %s not understood (only the zero initialisation of a missing key is expected)", oneLine(src(x.Cond)), pos(x))
			}
		default:
			fatal("CountBySeverity: `%s` at %s not understood", oneLine(src(st)), pos(st))
		}
	}
	if incs != 1 {
		fatal("CountBySeverity: the counter is incremented %d times per report", incs)
	}
	return "every-report-counts-once-under-its-own-severity"
}

// package level `var x = "lit"` / `const x = "lit"` string identifiers
func stringIdents(p *pkgFiles) map[string]string {
	m := map[string]string{}
	for _, fn := range p.names {
		for _, d := range p.files[fn].Decls {
			gd, ok := d.(*ast.GenDecl)
			if !ok || (gd.Tok != token.VAR && gd.Tok != token.CONST) {
				continue
			}
			for _, s := range gd.Specs {
				vs := s.(*ast.ValueSpec)
				for i, n := range vs.Names {
					if i < len(vs.Values) {
						if bl, ok := vs.Values[i].(*ast.BasicLit); ok && bl.Kind == token.STRING {
							if u, err := strconv.Unquote(bl.Value); err == nil {
								m[n.Name] = u
							}
						}
					}
				}
			}
		}
	}
	return m
}

func resolveStr(strs map[string]string, e ast.Expr) string {
	switch x := e.(type) {
	case *ast.BasicLit:
		return strLit(x)
	case *ast.Ident:
		if v, ok := strs[x.Name]; ok {
			return v
		}
	}
	fatal("cannot resolve string %s at %s", src(e), pos(e))
	return ""
}

func kvOf(cl *ast.CompositeLit, key string) ast.Expr {
	for _, e := range cl.Elts {
		if kv, ok := e.(*ast.KeyValueExpr); ok {
			if id, ok := kv.Key.(*ast.Ident); ok && id.Name == key {
				return kv.Value
			}
		}
	}
	return nil
}

func findCommandVar(p *pkgFiles, name string) *ast.CompositeLit {
	for _, fn := range p.names {
		for _, d := range p.files[fn].Decls {
			gd, ok := d.(*ast.GenDecl)
			if !ok || gd.Tok != token.VAR {
				continue
			}
			for _, s := range gd.Specs {
				vs := s.(*ast.ValueSpec)
				for i, n := range vs.Names {
					if n.Name == name && i < len(vs.Values) {
						if ue, ok := vs.Values[i].(*ast.UnaryExpr); ok {
							if cl, ok := ue.X.(*ast.CompositeLit); ok {
								return cl
							}
						}
					}
				}
			}
		}
	}
	fatal("command variable %s not found as &cli.Command{...}", name)
	return nil
}

// returnsOf: all return statements of the function body itself (function literals are not entered), in source order.
// The last result decides: the identifier nil => "nil return"; the identifier err must sit directly under
// `if err != nil` / `if ...; err != nil` (so it is statically non-nil); anything else (errors.New, fmt.Errorf) is an error.
func returnsOf(fd *ast.FuncDecl) []string {
	var checkPos token.Pos
	ast.Inspect(fd.Body, func(n ast.Node) bool {
		if ce, ok := n.(*ast.CallExpr); ok {
			if id, ok := ce.Fun.(*ast.Ident); ok && id.Name == "checkRules" && checkPos == token.NoPos {
				checkPos = ce.Pos()
			}
		}
		return true
	})
	var rows []string
	var walk func(n ast.Node, guard string)
	walk = func(n ast.Node, guard string) {
		switch x := n.(type) {
		case nil:
			return
		case *ast.FuncLit:
			return
		case *ast.ReturnStmt:
			if len(x.Results) == 0 {
				fatal("%s: bare return at %s (named results are not supported)", fd.Name.Name, pos(x))
			}
			last := x.Results[len(x.Results)-1]
			isNil := false
			if id, ok := last.(*ast.Ident); ok {
				switch id.Name {
				case "nil":
					isNil = true
				case "err":
					if guard != "err != nil" {
						fatal("%s: `return err` at %s is not directly guarded by `err != nil` (guard: %q)", fd.Name.Name, pos(x), guard)
					}
				default:
					fatal("%s: return of identifier %s at %s not understood", fd.Name.Name, id.Name, pos(x))
				}
			} else if ce, ok := last.(*ast.CallExpr); ok {
				fn := oneLine(src(ce.Fun))
				if fn != "errors.New" && fn != "fmt.Errorf" {
					fatal("%s: return of call %s at %s not understood", fd.Name.Name, fn, pos(x))
				}
			} else {
				fatal("%s: return expression %s at %s not understood", fd.Name.Name, src(last), pos(x))
			}
			after := checkPos != token.NoPos && x.Pos() > checkPos
			rows = append(rows, fmt.Sprintf("(%s, %s)", cbool(isNil), cbool(after)))
			return
		case *ast.IfStmt:
			walk(x.Init, guard)
			g := oneLine(src(x.Cond))
			for _, st := range x.Body.List {
				walk(st, g)
			}
			if x.Else != nil {
				walk(x.Else, "else")
			}
			return
		case *ast.BlockStmt:
			for _, st := range x.List {
				walk(st, guard)
			}
			return
		case *ast.ForStmt:
			walk(x.Body, "loop")
			return
		case *ast.RangeStmt:
			walk(x.Body, "loop")
			return
		case *ast.SwitchStmt:
			walk(x.Body, "switch")
			return
		case *ast.TypeSwitchStmt:
			walk(x.Body, "switch")
			return
		case *ast.SelectStmt:
			walk(x.Body, "select")
			return
		case *ast.CaseClause:
			for _, st := range x.Body {
				walk(st, "case")
			}
			return
		case *ast.CommClause:
			for _, st := range x.Body {
				walk(st, "case")
			}
			return
		case *ast.LabeledStmt:
			walk(x.Stmt, guard)
			return
		}
	}
	walk(fd.Body, "")
	if len(rows) == 0 {
		fatal("%s: no return statements", fd.Name.Name)
	}
	return rows
}

// stagesOf names, for every return statement in source order, the stage of Model/ExitFlow.v it is: the callee whose error
// is being returned (the last call assigned to err / ok before the return) decides; unknown callees are fatal, so a new
// error path cannot appear unnoticed.
func stagesOf(fd *ast.FuncDecl, strs map[string]string) []string {
	stageOfCall := func(ce *ast.CallExpr) string {
		fn := oneLine(src(ce.Fun))
		switch {
		case fn == "actionSetup":
			return "SSetup"
		case fn == "git.CurrentBranch":
			return "SBranch"
		case fn == "finder.Find" || strings.HasPrefix(fn, "discovery.NewGlobFinder("):
			return "SFind"
		case strings.HasPrefix(fn, "discovery.NewGitBranchFinder("):
			return "SGitFind"
		case fn == "gen.GenerateStatic":
			return "SGenerate"
		case fn == "checkRules":
			return "SCheck"
		case fn == "os.Create":
			return "SOutputs"
		case fn == "rep.Submit":
			return "SSubmit"
		case fn == "os.LookupEnv" || fn == "strconv.Atoi" || fn == "git.HeadCommit" || fn == "reporter.NewGitLabReporter" || fn == "reporter.NewGithubReporter":
			return "SReporters"
		case fn == "checks.ParseSeverity":
			if len(ce.Args) == 1 {
				if inner, ok := ce.Args[0].(*ast.CallExpr); ok && len(inner.Args) == 1 {
					if id, ok := inner.Args[0].(*ast.Ident); ok {
						switch strs[id.Name] {
						case "fail-on":
							return "SFailOn"
						case "min-severity":
							return "SMinSeverity"
						}
					}
				}
			}
		}
		fatal("%s: call %s at %s is not a stage the model knows", fd.Name.Name, fn, pos(ce))
		return ""
	}
	lastErr, lastOk := "", ""
	var seq []string
	note := func(as *ast.AssignStmt) {
		if len(as.Rhs) != 1 {
			return
		}
		ce, ok := as.Rhs[0].(*ast.CallExpr)
		if !ok {
			return
		}
		for _, l := range as.Lhs {
			if id, ok := l.(*ast.Ident); ok {
				switch id.Name {
				case "err":
					lastErr = stageOfCall(ce)
				case "ok":
					if oneLine(src(ce.Fun)) == "os.LookupEnv" {
						lastOk = stageOfCall(ce)
					}
				}
			}
		}
	}
	var walk func(n ast.Node, guard string)
	walk = func(n ast.Node, guard string) {
		switch x := n.(type) {
		case nil:
		case *ast.FuncLit:
		case *ast.AssignStmt:
			note(x)
		case *ast.ReturnStmt:
			last := x.Results[len(x.Results)-1]
			if id, ok := last.(*ast.Ident); ok && id.Name == "nil" {
				seq = append(seq, "nil")
				return
			}
			switch {
			case guard == "err != nil":
				if lastErr == "" {
					fatal("%s: return at %s: no call assigned to err before it", fd.Name.Name, pos(x))
				}
				seq = append(seq, lastErr)
			case guard == "!ok":
				if lastOk == "" {
					fatal("%s: return at %s: no os.LookupEnv before it", fd.Name.Name, pos(x))
				}
				seq = append(seq, lastOk)
			case strings.HasPrefix(guard, "len(") && strings.HasSuffix(guard, "== 0"):
				seq = append(seq, "SArgs")
			case !strings.Contains(guard, "err") && !strings.Contains(guard, "ok") && guard != "" && guard != "else" && guard != "loop":
				seq = append(seq, "SThreshold") // the shape of this test is checked by thresholdOf
			default:
				fatal("%s: return at %s under guard %q is not a stage the model knows", fd.Name.Name, pos(x), guard)
			}
		case *ast.IfStmt:
			walk(x.Init, guard)
			g := oneLine(src(x.Cond))
			for _, st := range x.Body.List {
				walk(st, g)
			}
			if x.Else != nil {
				walk(x.Else, "else")
			}
		case *ast.BlockStmt:
			for _, st := range x.List {
				walk(st, guard)
			}
		case *ast.ForStmt:
			walk(x.Body, guard)
		case *ast.RangeStmt:
			walk(x.Body, guard)
		case *ast.LabeledStmt:
			walk(x.Stmt, guard)
		}
	}
	if fd == nil {
		fatal("stagesOf: function not found")
	}
	walk(fd.Body, "")
	return seq
}

// thresholdOf recognises
//     F, err := checks.ParseSeverity(c.String(<fail-on>))           (F never assigned again)
//     B := summary.CountBySeverity()
//     for K[, V] := range B { ... if K OP F { ACC += V | ACC = true [; break] } ... }
//     if ACC > 0 | ACC { return <error> }
// and returns (OP normalised to `severity OP fail-on`, "sum-of-counts" | "flag", "positive" | "set").
func thresholdOf(fd *ast.FuncDecl, strs map[string]string) string {
	if fd == nil {
		fatal("threshold: function not found")
	}
	fn := fd.Name.Name
	failVar := ""
	assigns := map[string]int{}
	ast.Inspect(fd.Body, func(n ast.Node) bool {
		switch x := n.(type) {
		case *ast.AssignStmt:
			for _, l := range x.Lhs {
				if id, ok := l.(*ast.Ident); ok {
					assigns[id.Name]++
				}
			}
			if len(x.Rhs) == 1 && len(x.Lhs) == 2 {
				if ce, ok := x.Rhs[0].(*ast.CallExpr); ok && oneLine(src(ce.Fun)) == "checks.ParseSeverity" && len(ce.Args) == 1 {
					if inner, ok := ce.Args[0].(*ast.CallExpr); ok && oneLine(src(inner.Fun)) == "c.String" && len(inner.Args) == 1 {
						if id, ok := inner.Args[0].(*ast.Ident); ok && strs[id.Name] == "fail-on" {
							if failVar != "" {
								fatal("%s: --fail-on parsed twice (%s)", fn, pos(x))
							}
							failVar = selName(x.Lhs[0])
						}
					}
				}
			}
		case *ast.IncDecStmt:
			if id, ok := x.X.(*ast.Ident); ok {
				assigns[id.Name]++
			}
		}
		return true
	})
	if failVar == "" {
		fatal("%s: no `X, err := checks.ParseSeverity(c.String(failOnFlag))` found", fn)
	}
	if assigns[failVar] != 1 {
		fatal("%s: the parsed --fail-on value %s is assigned %d times (expected once)", fn, failVar, assigns[failVar])
	}
	// CountBySeverity variable
	bsVar := ""
	ast.Inspect(fd.Body, func(n ast.Node) bool {
		if as, ok := n.(*ast.AssignStmt); ok && len(as.Lhs) == 1 && len(as.Rhs) == 1 {
			if ce, ok := as.Rhs[0].(*ast.CallExpr); ok && oneLine(src(ce.Fun)) == "summary.CountBySeverity" {
				bsVar = selName(as.Lhs[0])
			}
		}
		return true
	})
	var loop *ast.RangeStmt
	for _, st := range fd.Body.List {
		if rs, ok := st.(*ast.RangeStmt); ok {
			direct := false
			if ce, ok := rs.X.(*ast.CallExpr); ok && oneLine(src(ce.Fun)) == "summary.CountBySeverity" {
				direct = true // `for s, c := range summary.CountBySeverity()`
			}
			if id, ok := rs.X.(*ast.Ident); (ok && bsVar != "" && id.Name == bsVar) || direct {
				if loop != nil {
					fatal("%s: two loops over the CountBySeverity map", fn)
				}
				loop = rs
			}
		}
	}
	if loop == nil {
		fatal("%s: no top-level `for ... := range <summary.CountBySeverity()>` loop", fn)
	}
	if loop.Key == nil {
		fatal("%s: loop at %s has no key variable", fn, pos(loop))
	}
	key := selName(loop.Key)
	val := ""
	if loop.Value != nil {
		val = selName(loop.Value)
	}
	op, accKind, accVar := "", "", ""
	for _, st := range loop.Body.List {
		is, ok := st.(*ast.IfStmt)
		if !ok {
			continue
		}
		be, ok := is.Cond.(*ast.BinaryExpr)
		if !ok {
			continue
		}
		l, r := oneLine(src(be.X)), oneLine(src(be.Y))
		var o string
		switch {
		case l == key && r == failVar:
			o = be.Op.String()
		case l == failVar && r == key:
			o = map[string]string{"<": ">", "<=": ">=", ">": "<", ">=": "<=", "==": "==", "!=": "!="}[be.Op.String()]
		default:
			continue
		}
		if op != "" {
			fatal("%s: two comparisons with the --fail-on value in the loop at %s", fn, pos(loop))
		}
		op = o
		if is.Else != nil || len(is.Body.List) == 0 {
			fatal("%s: threshold if at %s has an unexpected shape", fn, pos(is))
		}
		switch b := is.Body.List[0].(type) {
		case *ast.AssignStmt:
			if len(b.Lhs) != 1 || len(b.Rhs) != 1 {
				fatal("%s: threshold body at %s not understood", fn, pos(b))
			}
			accVar = selName(b.Lhs[0])
			rhs := oneLine(src(b.Rhs[0]))
			switch {
			case b.Tok == token.ADD_ASSIGN && val != "" && rhs == val:
				accKind = "sum-of-counts"
			case b.Tok == token.ASSIGN && rhs == "true":
				accKind = "flag"
			default:
				fatal("%s: threshold body `%s` at %s not understood", fn, oneLine(src(b)), pos(b))
			}
		default:
			fatal("%s: threshold body at %s not understood", fn, pos(is.Body))
		}
		for _, extra := range is.Body.List[1:] {
			if bs, ok := extra.(*ast.BranchStmt); !ok || bs.Tok != token.BREAK {
				fatal("%s: unexpected statement `%s` in the threshold body at %s", fn, oneLine(src(extra)), pos(extra))
			}
		}
	}
	if op == "" {
		fatal("%s: the loop over %s at %s does not compare its key with the --fail-on value %s", fn, bsVar, pos(loop), failVar)
	}
	// the accumulator is written in the loop only (plus its declaration)
	final := ""
	for _, st := range fd.Body.List {
		is, ok := st.(*ast.IfStmt)
		if !ok || is.Pos() < loop.End() {
			continue
		}
		c := oneLine(src(is.Cond))
		kind := ""
		switch {
		case accKind == "sum-of-counts" && (c == accVar+" > 0" || c == accVar+" != 0" || c == accVar+" >= 1" || c == "0 < "+accVar):
			kind = "positive"
		case accKind == "flag" && c == accVar:
			kind = "set"
		default:
			continue
		}
		if len(is.Body.List) != 1 || is.Else != nil {
			fatal("%s: final threshold test at %s has an unexpected shape", fn, pos(is))
		}
		rs, ok := is.Body.List[0].(*ast.ReturnStmt)
		if !ok || len(rs.Results) != 1 {
			fatal("%s: final threshold test at %s does not return", fn, pos(is))
		}
		if id, ok := rs.Results[0].(*ast.Ident); ok && id.Name == "nil" {
			fatal("%s: final threshold test at %s returns nil", fn, pos(is))
		}
		if final != "" {
			fatal("%s: two final threshold tests", fn)
		}
		final = kind
	}
	if final == "" {
		fatal("%s: no `if %s ... { return <error> }` after the loop", fn, accVar)
	}
	want := 2 // declaration/initialisation + the write in the loop
	if accKind == "sum-of-counts" {
		want = 1 // `var a, b, c int` is not an assignment
	}
	if assigns[accVar] != want {
		fatal("%s: accumulator %s is written %d times (expected %d)", fn, accVar, assigns[accVar], want)
	}
	if strings.ContainsAny(op, "\"") {
		fatal("bad operator")
	}
	return fmt.Sprintf("(%s, %s, %s)", cs(op), cs(accKind), cs(final))
}
