//go:build ext_C01

// translator extension for C01: the finite key tables both sides of the property hinge on, regenerated from the Go AST into
// coq/Gen/C01.v on every run:
//   pint_rule_keys      the cases of the `switch nodeValue(node)` of parseRuleStrict (strict.go), constants resolved
//   pint_rule_loop_keys the cases of the `switch nodeValue(key)` of parseRule (parser.go) that store a field (all but default)
//   pint_group_keys     the string cases of the `switch nodeValue(entry.key)` of parseGroup (strict.go)
//   pint_top_keys       the key parseGroups insists on (`nodeValue(entry.key) != "groups"`)
//   prom_groups_fields / prom_group_fields / prom_rule_fields
//                       the yaml struct tags of rulefmt.RuleGroups / RuleGroup / Rule of the Prometheus module pint is
//                       built against (module directory asked from `go list -m`), with the Go type of each field
// Coq (Proofs/C01_tables.v) checks that Model/Parser.v's field_of / group_entry and Model/PromLoader.v's rule_fields /
// group_fields are exactly these tables.  Fails closed: an unrecognised shape is a fatal error naming the position.
package main

import (
	"flag"
	"fmt"
	"go/ast"
	"os"
	"os/exec"
	"path/filepath"
	"reflect"
	"strings"
)

func switchOn(fd *ast.FuncDecl, tagSrc string) *ast.SwitchStmt {
	var found *ast.SwitchStmt
	ast.Inspect(fd.Body, func(n ast.Node) bool {
		if sw, ok := n.(*ast.SwitchStmt); ok && sw.Tag != nil && src(sw.Tag) == tagSrc {
			if found != nil {
				fatal("%s: more than one `switch %s`", fd.Name.Name, tagSrc)
			}
			found = sw
		}
		return true
	})
	if found == nil {
		fatal("%s: no `switch %s` (the shape of the key dispatch changed)", fd.Name.Name, tagSrc)
	}
	return found
}

// caseStrings: the string of every case expression (literal or package constant); hasDefault reports a default clause.
func caseStrings(sw *ast.SwitchStmt, ct *constTable) (keys []string, hasDefault bool) {
	for _, st := range sw.Body.List {
		cc := st.(*ast.CaseClause)
		if cc.List == nil {
			hasDefault = true
			continue
		}
		for _, e := range cc.List {
			switch v := e.(type) {
			case *ast.BasicLit:
				keys = append(keys, strLit(v))
			case *ast.Ident:
				s, ok := ct.strs[v.Name]
				if !ok {
					fatal("case %s at %s is not a string constant of the package", v.Name, pos(v))
				}
				keys = append(keys, s)
			default:
				fatal("case at %s: expected a string literal or constant, got %s", pos(e), src(e))
			}
		}
	}
	return keys, hasDefault
}

func structFields(p *pkgFiles, name string) (rows []string) {
	for _, fn := range p.names {
		for _, d := range p.files[fn].Decls {
			gd, ok := d.(*ast.GenDecl)
			if !ok {
				continue
			}
			for _, s := range gd.Specs {
				ts, ok := s.(*ast.TypeSpec)
				if !ok || ts.Name.Name != name {
					continue
				}
				st, ok := ts.Type.(*ast.StructType)
				if !ok {
					fatal("type %s at %s is not a struct", name, pos(ts))
				}
				for _, f := range st.Fields.List {
					if f.Tag == nil {
						fatal("field of %s at %s has no struct tag", name, pos(f))
					}
					tag := reflect.StructTag(strings.Trim(f.Tag.Value, "`")).Get("yaml")
					if tag == "" {
						fatal("field of %s at %s has no yaml tag", name, pos(f))
					}
					key := strings.Split(tag, ",")[0]
					if key == "" || key == "-" {
						fatal("field of %s at %s: yaml tag %q not understood", name, pos(f), tag)
					}
					rows = append(rows, fmt.Sprintf("(%s, %s)", cs(key), cs(oneLine(src(f.Type)))))
				}
				return rows
			}
		}
	}
	fatal("type %s not found in %s", name, p.dir)
	return nil
}

func main() {
	srcDir := flag.String("src", "/repo", "pint source tree")
	outPath := flag.String("out", "C01.v", "output .v")
	jsonPath := flag.String("json", "", "output json")
	flag.Parse()

	o := newOut("C01 key tables")
	p := loadPkg(filepath.Join(*srcDir, "internal", "parser"))
	ct := collectConsts(p)

	strictRule := findFunc(p, "", "parseRuleStrict")
	if strictRule == nil {
		fatal("parseRuleStrict not found")
	}
	keys, def := caseStrings(switchOn(strictRule, "nodeValue(node)"), ct)
	if !def {
		fatal("parseRuleStrict: the key switch has no default (reject) clause any more")
	}
	o.def("pint_rule_keys", "list string", cstrs(keys))

	pr := findFunc(p, "", "parseRule")
	if pr == nil {
		fatal("parseRule not found")
	}
	keys, def = caseStrings(switchOn(pr, "nodeValue(key)"), ct)
	if !def {
		fatal("parseRule: the key switch has no default (unknown key) clause any more")
	}
	o.def("pint_rule_loop_keys", "list string", cstrs(keys))

	pg := findFunc(p, "", "parseGroup")
	if pg == nil {
		fatal("parseGroup not found")
	}
	keys, def = caseStrings(switchOn(pg, "nodeValue(entry.key)"), ct)
	if !def {
		fatal("parseGroup: the key switch has no default (invalid group key) clause any more")
	}
	o.def("pint_group_keys", "list string", cstrs(keys))

	pgs := findFunc(p, "", "parseGroups")
	if pgs == nil {
		fatal("parseGroups not found")
	}
	var top []string
	ast.Inspect(pgs.Body, func(n ast.Node) bool {
		if be, ok := n.(*ast.BinaryExpr); ok && be.Op.String() == "!=" && src(be.X) == "nodeValue(entry.key)" {
			top = append(top, strLit(be.Y))
		}
		return true
	})
	if len(top) != 1 {
		fatal("parseGroups: expected exactly one `nodeValue(entry.key) != \"...\"` test, found %d", len(top))
	}
	o.def("pint_top_keys", "list string", cstrs(top))

	// the Prometheus module pint is built against
	cmd := exec.Command("go", "list", "-m", "-f", "{{.Dir}}", "github.com/prometheus/prometheus")
	cmd.Dir = *srcDir
	cmd.Env = append(os.Environ(), "GOFLAGS=-mod=mod", "GOPROXY=off")
	outb, err := cmd.Output()
	if err != nil {
		fatal("go list -m github.com/prometheus/prometheus in %s: %v", *srcDir, err)
	}
	promDir := strings.TrimSpace(string(outb))
	if promDir == "" {
		fatal("the Prometheus module has no directory (not in the module cache?)")
	}
	rf := loadPkg(filepath.Join(promDir, "model", "rulefmt"))
	o.def("prom_groups_fields", "list (string * string)", clist(structFields(rf, "RuleGroups")))
	o.def("prom_group_fields", "list (string * string)", clist(structFields(rf, "RuleGroup")))
	o.def("prom_rule_fields", "list (string * string)", clist(structFields(rf, "Rule")))
	o.json["prometheus_module_dir"] = promDir
	o.write(*outPath, *jsonPath)
}
