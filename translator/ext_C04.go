//go:build ext_C04

// translator extension for C04/C12: regenerates coq/Gen/C04.v from internal/parser/utils/source.go.
//
// Extracted: the `switch n.Func.Name` of parsePromQLFunc -- for every case clause the list of function
// names and the *kind* of its body, recognised by an exact statement-sequence fingerprint.  A function
// moved between cases changes the table (and thereby the model and the finite compatibility lemma of
// Proofs/C04_*.v); a case body that no longer matches a known fingerprint makes the translator fail
// closed (broken obligation).  Also: guaranteedLabelsMatches and the aggregation Operation strings.
package main

import (
	"flag"
	"go/ast"
	"path/filepath"
	"regexp"
	"strings"
)

var wsRe = regexp.MustCompile(`\s+`)

func norm(s string) string { return strings.TrimSpace(wsRe.ReplaceAllString(s, " ")) }

// stmtFingerprint prints one statement with message arguments abstracted away.
func stmtFingerprint(st ast.Stmt) string {
	s := norm(src(st))
	if strings.HasPrefix(s, "s = excludeAllLabels(") {
		return "s = excludeAllLabels(...)"
	}
	return s
}

const gsel = "s = guaranteeLabel(s, labelsFromSelectors(guaranteedLabelsMatches, s.Selector)...)"

var kinds = map[string]string{
	"s.Returns = promParser.ValueTypeVector|" + gsel: "preserve",
	"s.Returns = promParser.ValueTypeVector":         "sort",
	"s.Returns = promParser.ValueTypeScalar|s.IncludedLabels = nil|s.GuaranteedLabels = nil|s.FixedLabels = true|s.AlwaysReturns = true|s = excludeAllLabels(...)": "scalar",
	"s.Returns = promParser.ValueTypeVector|s.IsDead = false|s.IsDeadReason = \"\"|s.AlwaysReturns = false|s.FixedLabels = true|s.IncludedLabels = nil|s.GuaranteedLabels = nil|" +
		"for _, name := range absentLabels(n.Args[0]) { s = includeLabel(s, name) s = guaranteeLabel(s, name) }|s = excludeAllLabels(...)": "absent",
	"s.Returns = promParser.ValueTypeVector|if len(s.Call.Args) == 0 { s.FixedLabels = true s.AlwaysReturns = true s.IncludedLabels = nil s.GuaranteedLabels = nil s = excludeAllLabels(...) } else { " + gsel + " }": "timelike",
	"s.Returns = promParser.ValueTypeVector|if dst, ok := stringLiteralValue(n.Args[1]); ok { s = guaranteeLabel(s, dst) }":                                                                                           "arg1",
	"s.Returns = promParser.ValueTypeVector|s.IncludedLabels = nil|s.GuaranteedLabels = nil|s.FixedLabels = true|s.AlwaysReturns = true|" +
		"for _, vs := range walkNode(expr, n.Args[0]) { if vs.KnownReturn { s.ReturnedNumber = vs.ReturnedNumber s.KnownReturn = true } }|s = excludeAllLabels(...)": "vector",
	"s.Returns = promParser.ValueTypeNone|s.Call = nil": "default",
}

var excludeAllInner = regexp.MustCompile(`s = excludeAllLabels\((?:[^()]|\((?:[^()]|\([^()]*\))*\))*\)`)

func bodyFingerprint(body []ast.Stmt) string {
	parts := []string{}
	for _, st := range body {
		fp := stmtFingerprint(st)
		// abstract excludeAllLabels calls nested inside if/for bodies as well
		fp = excludeAllInner.ReplaceAllString(fp, "s = excludeAllLabels(...)")
		parts = append(parts, fp)
	}
	return strings.Join(parts, "|")
}

func main() {
	srcDir := flag.String("src", "/repo", "pint source tree")
	outPath := flag.String("out", "C04.v", "output .v")
	jsonPath := flag.String("json", "", "output json")
	flag.Parse()
	o := newOut("C04/C12 tables: internal/parser/utils/source.go")
	p := loadPkg(filepath.Join(*srcDir, "internal", "parser", "utils"))

	fd := findFunc(p, "", "parsePromQLFunc")
	if fd == nil {
		fatal("parsePromQLFunc not found")
	}
	sw := onlySwitch(fd)
	if norm(src(sw.Tag)) != "n.Func.Name" {
		fatal("parsePromQLFunc: switch tag is %s, expected n.Func.Name", src(sw.Tag))
	}
	rows := []string{}
	jrows := []any{}
	seen := map[string]bool{}
	for _, st := range sw.Body.List {
		cc := st.(*ast.CaseClause)
		names := []string{}
		for _, e := range cc.List {
			nm := strLit(e)
			if seen[nm] {
				fatal("function name %s appears twice", nm)
			}
			seen[nm] = true
			names = append(names, nm)
		}
		fp := bodyFingerprint(cc.Body)
		kind, ok := kinds[fp]
		if !ok {
			fatal("parsePromQLFunc: case at %s has an unrecognised body: %s", pos(cc), fp)
		}
		if (cc.List == nil) != (kind == "default") {
			fatal("parsePromQLFunc: default clause / default body mismatch at %s", pos(cc))
		}
		rows = append(rows, "("+cstrs(names)+", "+cs(kind)+")")
		jrows = append(jrows, map[string]any{"names": names, "kind": kind})
	}
	o.def("func_cases", "list (list string * string)", clist(rows))
	o.json["func_cases"] = jrows

	// absentLabels (fixes 5b88941, 06b3093): the model's [absent_names] follows this exact body
	af := findFunc(p, "", "absentLabels")
	if af == nil {
		fatal("absentLabels not found")
	}
	const absentLabelsBody = "for { p, ok := arg.(*promParser.ParenExpr) if !ok { break } arg = p.Expr }|var selector *promParser.VectorSelector|switch a := arg.(type) { case *promParser.VectorSelector: selector = a case *promParser.MatrixSelector: selector, _ = a.VectorSelector.(*promParser.VectorSelector) }|if selector == nil { return nil }|seen := map[string]bool{}|for _, lm := range selector.LabelMatchers { if lm.Name == labels.MetricName { continue } if lm.Type == labels.MatchEqual && !seen[lm.Name] { seen[lm.Name] = true if lm.Value != \"\" { names = appendToSlice(names, lm.Name) continue } } names = removeFromSlice(names, lm.Name) }|return names"
	if fp := bodyFingerprint(af.Body.List); fp != absentLabelsBody {
		fatal("absentLabels has an unrecognised body: %s", fp)
	}
	o.json["absent_labels_body"] = "recognised"

	// stringLiteralValue (fix 53ade46): the model's [lit_val]
	sf := findFunc(p, "", "stringLiteralValue")
	if sf == nil {
		fatal("stringLiteralValue not found")
	}
	const stringLiteralValueBody = "for { switch e := expr.(type) { case *promParser.ParenExpr: expr = e.Expr case *promParser.StringLiteral: return e.Val, true default: return \"\", false } }"
	if fp := bodyFingerprint(sf.Body.List); fp != stringLiteralValueBody {
		fatal("stringLiteralValue has an unrecognised body: %s", fp)
	}
	// the count_values case of walkAggregation: the model's [agg_src] ACountValues
	wa := findFunc(p, "", "walkAggregation")
	if wa == nil {
		fatal("walkAggregation not found")
	}
	const countValuesBody = "for _, s = range parseAggregation(expr, n) { s.Aggregation = n s.Operation = \"count_values\" param, ok := stringLiteralValue(n.Param) if ok { s = includeLabel(s, param) s = guaranteeLabel(s, param) } if n.Without || param != labels.MetricName { s = excludeMetricName(s, n) } src = append(src, s) }"
	foundCV := false
	for _, st := range onlySwitch(wa).Body.List {
		cc := st.(*ast.CaseClause)
		if len(cc.List) == 1 && norm(src(cc.List[0])) == "promParser.COUNT_VALUES" {
			foundCV = true
			if fp := bodyFingerprint(cc.Body); fp != countValuesBody {
				fatal("walkAggregation: the count_values case has an unrecognised body: %s", fp)
			}
		}
	}
	if !foundCV {
		fatal("walkAggregation: no count_values case")
	}
	o.json["count_values_body"] = "recognised"

	// guaranteedLabelsMatches
	gl := []string{}
	for _, e := range findVarSlice(p, "guaranteedLabelsMatches") {
		gl = append(gl, selName(e))
	}
	o.def("guaranteed_labels_matches", "list string", cstrs(gl))
	o.json["guaranteed_labels_matches"] = gl

	o.write(*outPath, *jsonPath)
}
