//go:build ext_C15

// translator extension for C15: the finite tables of the failover / error classification code are
// regenerated from the Go AST of the current tree into coq/Gen/C15.v.  Fails closed.
package main

import (
	"flag"
	"fmt"
	"go/ast"
	"go/parser"
	"go/token"
	"os"
	"os/exec"
	"path/filepath"
	"regexp"
	"sort"
	"strconv"
	"strings"
)

func main() {
	srcDir := flag.String("src", "/repo", "pint source tree")
	outPath := flag.String("out", "C15.v", "output .v")
	jsonPath := flag.String("json", "", "output json")
	flag.Parse()

	o := newOut("C15 failover tables")
	promapiPkg := loadPkg(filepath.Join(*srcDir, "internal", "promapi"))
	checksPkg := loadPkg(filepath.Join(*srcDir, "internal", "checks"))

	consts := map[string]string{}
	for k, v := range v1ErrorTypes(*srcDir) {
		consts[k] = v
	}
	for k, v := range collectConsts(promapiPkg).strs {
		consts[k] = v
	}
	resolve := func(e ast.Expr) string {
		n := selName(e)
		v, ok := consts[n]
		if !ok {
			fatal("cannot resolve constant %s at %s", src(e), pos(e))
		}
		return v
	}

	// ---- error type constants used by the classification
	var names []string
	for k := range consts {
		if strings.HasPrefix(k, "Err") {
			names = append(names, k)
		}
	}
	sort.Strings(names)
	var rows []string
	for _, k := range names {
		rows = append(rows, fmt.Sprintf("(%s, %s)", cs(k), cs(consts[k])))
	}
	o.def("error_type_consts", "list (string * string)", clist(rows))

	// ---- API paths
	rows = nil
	for _, p := range [][2]string{{"query", "APIPathQuery"}, {"range", "APIPathQueryRange"}, {"config", "APIPathConfig"}, {"flags", "APIPathFlags"}, {"metadata", "APIPathMetadata"}} {
		v, ok := consts[p[1]]
		if !ok {
			fatal("constant %s not found", p[1])
		}
		rows = append(rows, fmt.Sprintf("(%s, %s)", cs(p[0]), cs(v)))
	}
	o.def("endpoint_paths", "list (string * string)", clist(rows))

	// ---- decodeErrorType: switch s { case string(v1.X): return v1.X ... default: return ErrUnknown }
	fd := mustFunc(promapiPkg, "", "decodeErrorType")
	sw := onlySwitch(fd)
	rows = nil
	def := ""
	for _, st := range sw.Body.List {
		cc := st.(*ast.CaseClause)
		ret := onlyReturn(cc)
		if len(ret.Results) != 1 {
			fatal("decodeErrorType: case at %s returns %d values", pos(cc), len(ret.Results))
		}
		val := resolve(ret.Results[0])
		if cc.List == nil {
			def = val
			continue
		}
		for _, e := range cc.List {
			rows = append(rows, fmt.Sprintf("(%s, %s)", cs(caseString(e, resolve)), cs(val)))
		}
	}
	if def == "" {
		fatal("decodeErrorType: no default case")
	}
	o.def("decode_error_type_table", "list (string * string)", clist(rows))
	o.def("decode_error_type_default", "string", cs(def))

	// ---- IsUnavailableError / isUnsupportedError: errors.As(err,&APIError) ? ErrorType == C : fallback
	c, fb := asCompare(mustFunc(promapiPkg, "", "IsUnavailableError"), resolve)
	o.def("unavailable_error_type", "string", cs(c))
	o.def("unavailable_when_not_api", "bool", cbool(fb))
	c, fb = asCompare(mustFunc(promapiPkg, "", "isUnsupportedError"), resolve)
	o.def("unsupported_error_type", "string", cs(c))
	o.def("unsupported_when_not_api", "bool", cbool(fb))

	// ---- IsQueryTooExpensive
	genTooExpensive(o, mustFunc(promapiPkg, "", "IsQueryTooExpensive"), resolve)

	// ---- tryDecodingAPIError
	genTryDecoding(o, mustFunc(promapiPkg, "", "tryDecodingAPIError"), resolve, consts)

	// ---- failover loops
	rows = nil
	for _, m := range [][2]string{{"query", "Query"}, {"range", "RangeQuery"}, {"config", "Config"}, {"flags", "Flags"}, {"metadata", "Metadata"}} {
		un, us := failoverLoop(mustFunc(promapiPkg, "FailoverGroup", m[1]), m[1])
		rows = append(rows, fmt.Sprintf("(%s, (%s, %s))", cs(m[0]), cbool(un), cbool(us)))
	}
	o.def("failover_continue_on", "list (string * (bool * bool))", clist(rows))

	// ---- problemFromError
	genProblemFromError(o, mustFunc(checksPkg, "", "problemFromError"))
	genGroupConstruction(o, loadPkg(filepath.Join(*srcDir, "internal", "config")))

	o.write(*outPath, *jsonPath)
}

func mustFunc(p *pkgFiles, recv, name string) *ast.FuncDecl {
	fd := findFunc(p, recv, name)
	if fd == nil || fd.Body == nil {
		fatal("function %s.%s not found in %s", recv, name, p.dir)
	}
	return fd
}

// v1ErrorTypes reads the ErrorType constants of the client_golang version pinned in go.mod.
func v1ErrorTypes(srcDir string) map[string]string {
	gm, err := os.ReadFile(filepath.Join(srcDir, "go.mod"))
	if err != nil {
		fatal("go.mod: %v", err)
	}
	m := regexp.MustCompile(`(?m)^\s*github\.com/prometheus/client_golang\s+(v\S+)`).FindSubmatch(gm)
	if m == nil {
		fatal("client_golang version not found in go.mod")
	}
	cache := os.Getenv("GOMODCACHE")
	if cache == "" {
		if out, err := exec.Command("go", "env", "GOMODCACHE").Output(); err == nil {
			cache = strings.TrimSpace(string(out))
		}
	}
	if cache == "" {
		cache = filepath.Join(os.Getenv("HOME"), "go", "pkg", "mod")
	}
	path := filepath.Join(cache, "github.com", "prometheus", "client_golang@"+string(m[1]), "api", "prometheus", "v1", "api.go")
	f, err := parser.ParseFile(fset, path, nil, 0)
	if err != nil {
		fatal("cannot parse %s: %v", path, err)
	}
	res := map[string]string{}
	for _, d := range f.Decls {
		gd, ok := d.(*ast.GenDecl)
		if !ok || gd.Tok != token.CONST {
			continue
		}
		for _, s := range gd.Specs {
			vs := s.(*ast.ValueSpec)
			if vs.Type == nil || src(vs.Type) != "ErrorType" || len(vs.Names) != 1 || len(vs.Values) != 1 {
				continue
			}
			res[vs.Names[0].Name] = strLit(vs.Values[0])
		}
	}
	if len(res) == 0 {
		fatal("no ErrorType constants in %s", path)
	}
	return res
}

// caseString: `string(v1.ErrX)`, `string(ErrX)` or a string literal.
func caseString(e ast.Expr, resolve func(ast.Expr) string) string {
	switch v := e.(type) {
	case *ast.BasicLit:
		return strLit(v)
	case *ast.CallExpr:
		if src(v.Fun) == "string" && len(v.Args) == 1 {
			return resolve(v.Args[0])
		}
	case *ast.Ident, *ast.SelectorExpr:
		return resolve(e)
	}
	fatal("unrecognised case expression %s at %s", src(e), pos(e))
	return ""
}

// asCompare recognises
//
//	var e1 APIError
//	if ok := errors.As(err, &e1); ok { return e1.ErrorType == C }
//	return <bool>
func asCompare(fd *ast.FuncDecl, resolve func(ast.Expr) string) (string, bool) {
	var c string
	var fb *bool
	seenIf := false
	for _, st := range fd.Body.List {
		switch s := st.(type) {
		case *ast.DeclStmt:
		case *ast.IfStmt:
			if seenIf || s.Else != nil || !strings.Contains(src(s), "errors.As(err, &") {
				fatal("%s: unrecognised if at %s", fd.Name.Name, pos(s))
			}
			seenIf = true
			if len(s.Body.List) != 1 {
				fatal("%s: if body at %s is not a single return", fd.Name.Name, pos(s))
			}
			r, ok := s.Body.List[0].(*ast.ReturnStmt)
			if !ok || len(r.Results) != 1 {
				fatal("%s: if body at %s is not a single return", fd.Name.Name, pos(s))
			}
			be, ok := r.Results[0].(*ast.BinaryExpr)
			if !ok || be.Op != token.EQL || !strings.HasSuffix(src(be.X), ".ErrorType") {
				fatal("%s: expected `<x>.ErrorType == <const>` at %s, got %s", fd.Name.Name, pos(r), src(r.Results[0]))
			}
			c = resolve(be.Y)
		case *ast.ReturnStmt:
			if len(s.Results) != 1 {
				fatal("%s: return at %s", fd.Name.Name, pos(s))
			}
			b := boolLit(s.Results[0])
			fb = &b
		default:
			fatal("%s: unrecognised statement at %s", fd.Name.Name, pos(st))
		}
	}
	if !seenIf || fb == nil {
		fatal("%s: shape not recognised", fd.Name.Name)
	}
	return c, *fb
}

func genTooExpensive(o *out, fd *ast.FuncDecl, resolve func(ast.Expr) string) {
	var typ string
	var prefixes, suffixes []string
	ast.Inspect(fd.Body, func(n ast.Node) bool {
		switch v := n.(type) {
		case *ast.BinaryExpr:
			if v.Op == token.NEQ && strings.HasSuffix(src(v.X), ".ErrorType") {
				typ = resolve(v.Y)
			}
		case *ast.CallExpr:
			switch src(v.Fun) {
			case "strings.HasPrefix":
				prefixes = append(prefixes, strLit(v.Args[1]))
			case "strings.HasSuffix":
				suffixes = append(suffixes, strLit(v.Args[1]))
			case "strings.Contains", "strings.EqualFold", "regexp.MatchString":
				fatal("IsQueryTooExpensive: unrecognised test %s", src(v))
			}
		}
		return true
	})
	if typ == "" {
		fatal("IsQueryTooExpensive: no `ErrorType != <const>` guard")
	}
	o.def("too_expensive_error_type", "string", cs(typ))
	o.def("too_expensive_prefixes", "list string", cstrs(prefixes))
	o.def("too_expensive_suffixes", "list string", cstrs(suffixes))
}

func apiErrorType(e ast.Expr) ast.Expr {
	cl, ok := e.(*ast.CompositeLit)
	if !ok || src(cl.Type) != "APIError" {
		fatal("expected APIError literal at %s, got %s", pos(e), src(e))
	}
	for _, el := range cl.Elts {
		kv, ok := el.(*ast.KeyValueExpr)
		if ok && src(kv.Key) == "ErrorType" {
			return kv.Value
		}
	}
	fatal("APIError literal without ErrorType at %s", pos(e))
	return nil
}

func genTryDecoding(o *out, fd *ast.FuncDecl, resolve func(ast.Expr) string, consts map[string]string) {
	var classRows []string
	classDefault := ""
	var nfPaths []string
	nfType := ""
	finalDecoded := false
	for _, st := range fd.Body.List {
		switch s := st.(type) {
		case *ast.IfStmt:
			cond := src(s.Cond)
			switch {
			case cond == "resp.StatusCode == http.StatusNotFound":
				ast.Inspect(s.Body, func(n ast.Node) bool {
					switch v := n.(type) {
					case *ast.CallExpr:
						if src(v.Fun) == "strings.HasSuffix" && len(v.Args) == 2 && src(v.Args[0]) == "resp.Request.URL.Path" {
							nfPaths = append(nfPaths, resolve(v.Args[1]))
						}
					case *ast.ReturnStmt:
						if len(v.Results) == 1 {
							nfType = resolve(apiErrorType(v.Results[0]))
						}
					}
					return true
				})
			case strings.Contains(src(s.Init), "decoder.Stream(dec)") && cond == "err != nil":
				for _, bst := range s.Body.List {
					switch b := bst.(type) {
					case *ast.SwitchStmt:
						if src(b.Tag) != "resp.StatusCode / 100" {
							fatal("tryDecodingAPIError: unrecognised switch tag %s", src(b.Tag))
						}
						for _, c := range b.Body.List {
							cc := c.(*ast.CaseClause)
							ret := onlyReturn(cc)
							if cc.List == nil {
								fatal("tryDecodingAPIError: unexpected default case at %s", pos(cc))
							}
							for _, e := range cc.List {
								bl, ok := e.(*ast.BasicLit)
								if !ok || bl.Kind != token.INT {
									fatal("tryDecodingAPIError: case %s is not an int literal", src(e))
								}
								classRows = append(classRows, fmt.Sprintf("(%s%%Z, %s)", bl.Value, cs(resolve(apiErrorType(ret.Results[0])))))
							}
						}
					case *ast.ReturnStmt:
						classDefault = resolve(apiErrorType(b.Results[0]))
					default:
						fatal("tryDecodingAPIError: unrecognised statement at %s", pos(bst))
					}
				}
			default:
				fatal("tryDecodingAPIError: unrecognised if at %s: %s", pos(s), cond)
			}
		case *ast.ReturnStmt:
			if src(apiErrorType(s.Results[0])) == "decodeErrorType(errType)" {
				finalDecoded = true
			}
		}
	}
	if len(classRows) == 0 || classDefault == "" || !finalDecoded {
		fatal("tryDecodingAPIError: shape not recognised (status classes %d, default %q, decoded %v)", len(classRows), classDefault, finalDecoded)
	}
	if len(nfPaths) == 0 || nfType == "" {
		fatal("tryDecodingAPIError: 404 branch not recognised")
	}
	_ = consts
	o.def("try_decode_not_found_paths", "list string", cstrs(nfPaths))
	o.def("try_decode_not_found_type", "string", cs(nfType))
	o.def("try_decode_status_class", "list (Z * string)", clist(classRows))
	o.def("try_decode_status_class_default", "string", cs(classDefault))
}

// failoverLoop recognises, inside `for … := range fg.servers`:
//
//	x, err = prom.<Method>(…)
//	if err == nil { return … }
//	if !IsUnavailableError(err) [&& !errors.Is(err, ErrUnsupported)] { return …, &FailoverGroupError{…} }
//
// and returns which error classes let the loop go on to the next upstream.
func failoverLoop(fd *ast.FuncDecl, method string) (onUnavailable, onUnsupported bool) {
	// the loop over the upstreams in configured order: `for … := range fg.servers` or the equivalent index loop
	// `for i := 0; i < len(fg.servers); i++ { prom := fg.servers[i]; … }`
	var body *ast.BlockStmt
	for _, st := range fd.Body.List {
		switch l := st.(type) {
		case *ast.RangeStmt:
			if body != nil {
				fatal("FailoverGroup.%s: more than one loop", method)
			}
			if src(l.X) != "fg.servers" {
				fatal("FailoverGroup.%s: no `range fg.servers` loop", method)
			}
			body = l.Body
		case *ast.ForStmt:
			if body != nil {
				fatal("FailoverGroup.%s: more than one loop", method)
			}
			ok := false
			if as, isAs := l.Init.(*ast.AssignStmt); isAs && len(as.Lhs) == 1 && len(as.Rhs) == 1 && src(as.Rhs[0]) == "0" && l.Cond != nil && l.Post != nil {
				i := src(as.Lhs[0])
				if oneLine(src(l.Cond)) == i+" < len(fg.servers)" && oneLine(src(l.Post)) == i+"++" && len(l.Body.List) > 0 {
					if first, isAs := l.Body.List[0].(*ast.AssignStmt); isAs && len(first.Lhs) == 1 && len(first.Rhs) == 1 &&
						src(first.Lhs[0]) == "prom" && oneLine(src(first.Rhs[0])) == "fg.servers["+i+"]" {
						ok = true
					}
				}
			}
			if !ok {
				fatal("FailoverGroup.%s: loop at %s is not an in-order loop over fg.servers", method, pos(l))
			}
			body = l.Body
		}
	}
	if body == nil {
		fatal("FailoverGroup.%s: no `range fg.servers` loop", method)
	}
	called, okReturn, stop := false, false, false
	for _, st := range body.List {
		switch s := st.(type) {
		case *ast.AssignStmt:
			if len(s.Rhs) == 1 {
				if ce, ok := s.Rhs[0].(*ast.CallExpr); ok && src(ce.Fun) == "prom."+method {
					if called {
						fatal("FailoverGroup.%s: upstream called twice in the loop body", method)
					}
					called = true
				}
			}
		case *ast.IfStmt:
			cond := src(s.Cond)
			switch {
			case cond == "err == nil" || cond == "nil == err":
				okReturn = endsWithReturn(s.Body)
			case strings.HasPrefix(cond, "try > 0"):
				// debug logging only
			default:
				if stop {
					fatal("FailoverGroup.%s: second stop condition at %s", method, pos(s))
				}
				if !endsWithReturn(s.Body) {
					fatal("FailoverGroup.%s: stop branch at %s does not return", method, pos(s))
				}
				stop = true
				for _, cj := range conjuncts(s.Cond) {
					switch src(cj) {
					case "!IsUnavailableError(err)":
						onUnavailable = true
					case "!errors.Is(err, ErrUnsupported)":
						onUnsupported = true
					default:
						fatal("FailoverGroup.%s: unrecognised stop condition %s at %s", method, src(cj), pos(cj))
					}
				}
			}
		case *ast.ExprStmt:
		default:
			fatal("FailoverGroup.%s: unrecognised statement at %s", method, pos(st))
		}
	}
	if !called || !okReturn || !stop {
		fatal("FailoverGroup.%s: loop shape not recognised (call %v, ok-return %v, stop %v)", method, called, okReturn, stop)
	}
	return
}

func endsWithReturn(b *ast.BlockStmt) bool {
	if len(b.List) == 0 {
		return false
	}
	_, ok := b.List[len(b.List)-1].(*ast.ReturnStmt)
	return ok
}

func conjuncts(e ast.Expr) []ast.Expr {
	if be, ok := e.(*ast.BinaryExpr); ok && be.Op == token.LAND {
		return append(conjuncts(be.X), conjuncts(be.Y)...)
	}
	if pe, ok := e.(*ast.ParenExpr); ok {
		return conjuncts(pe.X)
	}
	return []ast.Expr{e}
}

// genProblemFromError: the `switch { case pred(err): … severity = X [if perrOk && perr.IsStrict() { severity = Y }] }`.
func genProblemFromError(o *out, fd *ast.FuncDecl) {
	sw := onlySwitch(fd)
	if sw.Tag != nil {
		fatal("problemFromError: expected a tagless switch")
	}
	var rows []string
	for _, st := range sw.Body.List {
		cc := st.(*ast.CaseClause)
		pred := "default"
		if cc.List != nil {
			if len(cc.List) != 1 {
				fatal("problemFromError: case with several conditions at %s", pos(cc))
			}
			pred = src(cc.List[0])
			switch pred {
			case "promapi.IsQueryTooExpensive(err)":
				pred = "too_expensive"
			case "promapi.IsUnavailableError(err)":
				pred = "unavailable"
			default:
				fatal("problemFromError: unrecognised case %s", pred)
			}
		}
		sev, strict := "", ""
		for _, b := range cc.Body {
			switch s := b.(type) {
			case *ast.AssignStmt:
				if len(s.Lhs) == 1 && src(s.Lhs[0]) == "severity" {
					sev = src(s.Rhs[0])
				}
			case *ast.IfStmt:
				if src(s.Cond) != "perrOk && perr.IsStrict()" || len(s.Body.List) != 1 {
					fatal("problemFromError: unrecognised if at %s", pos(s))
				}
				as, ok := s.Body.List[0].(*ast.AssignStmt)
				if !ok || src(as.Lhs[0]) != "severity" {
					fatal("problemFromError: unrecognised strict branch at %s", pos(s))
				}
				strict = src(as.Rhs[0])
			default:
				fatal("problemFromError: unrecognised statement at %s", pos(b))
			}
		}
		if sev == "" {
			fatal("problemFromError: case %s does not set severity", pred)
		}
		if sev == "s" {
			sev = "<fallback>"
		}
		rows = append(rows, fmt.Sprintf("(%s, (%s, %s))", cs(pred), cs(sev), cs(strict)))
	}
	o.def("problem_from_error_cases", "list (string * (string * string))", clist(rows))
	// the summary of the returned problem
	summary := ""
	ast.Inspect(fd.Body, func(n ast.Node) bool {
		if kv, ok := n.(*ast.KeyValueExpr); ok && src(kv.Key) == "Summary" {
			if bl, ok := kv.Value.(*ast.BasicLit); ok {
				summary, _ = strconv.Unquote(bl.Value)
			}
		}
		return true
	})
	if summary == "" {
		fatal("problemFromError: Summary literal not found")
	}
	o.def("problem_from_error_summary", "string", cs(summary))
}

// genGroupConstruction: config.newFailoverGroup — the order in which the upstream list is built (the `uri` first, then
// the `failover` entries in the order they were written) and the expression handed over as strictErrors.
// Recognised shape:
//
//	upstreams := []*promapi.Prometheus{ promapi.NewPrometheus(_, <A>, …) }
//	for _, u := range <B> { upstreams = append(upstreams, promapi.NewPrometheus(_, u, …)) }
//	return promapi.NewFailoverGroup(_, _, upstreams, <S>, …)
//
// any other statement that touches `upstreams` (sorting, compacting, reversing …) is rejected.
func genGroupConstruction(o *out, p *pkgFiles) {
	fd := findFunc(p, "", "newFailoverGroup")
	if fd == nil {
		fatal("config.newFailoverGroup not found")
	}
	var order []string
	strict := ""
	mentions := func(n ast.Node) bool {
		found := false
		ast.Inspect(n, func(c ast.Node) bool {
			if id, ok := c.(*ast.Ident); ok && id.Name == "upstreams" {
				found = true
			}
			return true
		})
		return found
	}
	newProm := func(e ast.Expr) *ast.CallExpr {
		ce, ok := e.(*ast.CallExpr)
		if !ok || src(ce.Fun) != "promapi.NewPrometheus" || len(ce.Args) < 2 {
			return nil
		}
		return ce
	}
	for _, st := range fd.Body.List {
		if !mentions(st) {
			continue
		}
		switch s := st.(type) {
		case *ast.AssignStmt:
			cl, ok := s.Rhs[0].(*ast.CompositeLit)
			if !ok || len(s.Lhs) != 1 || src(s.Lhs[0]) != "upstreams" || len(order) > 0 {
				fatal("newFailoverGroup: unrecognised statement on the upstream list at %s: %s", pos(s), oneLine(src(s)))
			}
			for _, el := range cl.Elts {
				ce := newProm(el)
				if ce == nil {
					fatal("newFailoverGroup: upstream list element at %s is not promapi.NewPrometheus(…)", pos(el))
				}
				order = append(order, oneLine(src(ce.Args[1])))
			}
		case *ast.RangeStmt:
			v, ok := s.Value.(*ast.Ident)
			if !ok || len(s.Body.List) != 1 {
				fatal("newFailoverGroup: unrecognised loop over the failover list at %s", pos(s))
			}
			as, ok := s.Body.List[0].(*ast.AssignStmt)
			if !ok || len(as.Lhs) != 1 || src(as.Lhs[0]) != "upstreams" {
				fatal("newFailoverGroup: unrecognised loop body at %s", pos(s))
			}
			ap, ok := as.Rhs[0].(*ast.CallExpr)
			if !ok || src(ap.Fun) != "append" || len(ap.Args) != 2 || src(ap.Args[0]) != "upstreams" {
				fatal("newFailoverGroup: the failover loop does not append at the end (%s)", pos(as))
			}
			ce := newProm(ap.Args[1])
			if ce == nil || src(ce.Args[1]) != v.Name {
				fatal("newFailoverGroup: the failover loop does not add the loop variable as the upstream URI (%s)", pos(as))
			}
			order = append(order, oneLine(src(s.X))+"[]")
		case *ast.ReturnStmt:
			ce, ok := s.Results[0].(*ast.CallExpr)
			if !ok || src(ce.Fun) != "promapi.NewFailoverGroup" || len(ce.Args) < 4 || src(ce.Args[2]) != "upstreams" {
				fatal("newFailoverGroup: unrecognised return at %s", pos(s))
			}
			strict = oneLine(src(ce.Args[3]))
		default:
			fatal("newFailoverGroup: unrecognised statement on the upstream list at %s: %s", pos(st), oneLine(src(st)))
		}
	}
	if len(order) == 0 || strict == "" {
		fatal("newFailoverGroup: shape not recognised (order %v, strict %q)", order, strict)
	}
	o.def("group_upstream_order", "list string", cstrs(order))
	o.def("group_strict_arg", "string", cs(strict))
}
