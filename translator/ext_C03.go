//go:build ext_C03

// translator extension for C03: the finite tables of internal/git/changes.go the model hinges on, regenerated from the Go
// AST into coq/Gen/C03.v:
//   file_status_consts   (constant name, rune value) of the FileStatus block ('A', 'C', 'D', 'R', 'M', 'T')
//   path_type_consts     (constant name, iota value) of the PathType block (Missing, Dir, File, Symlink)
//   before_switch        the `switch change.Status` of git.Changes that chooses Path.Before.Name when no earlier record
//                        exists: per case clause (constant names, "src" when Before.Name is set to srcPath unconditionally,
//                        "probe" when it is first cleared and only set after an ls-tree probe)
//   git_log_args         the argument vector of the `git log` call ("<base>..HEAD" for baseBranch+"..HEAD")
// Fails closed: any shape it does not recognise is a fatal error naming the source position.
package main

import (
	"flag"
	"fmt"
	"go/ast"
	"go/token"
	"path/filepath"
	"sort"
	"strconv"
)

func main() {
	srcDir := flag.String("src", "/repo", "pint source tree")
	outPath := flag.String("out", "C03.v", "output .v")
	jsonPath := flag.String("json", "", "output json")
	flag.Parse()

	o := newOut("C03 git tables")
	p := loadPkg(filepath.Join(*srcDir, "internal", "git"))

	// ---- FileStatus rune constants
	var status []string
	for _, fn := range p.names {
		for _, d := range p.files[fn].Decls {
			gd, ok := d.(*ast.GenDecl)
			if !ok || gd.Tok != token.CONST {
				continue
			}
			for _, s := range gd.Specs {
				vs := s.(*ast.ValueSpec)
				if vs.Type == nil || src(vs.Type) != "FileStatus" {
					continue
				}
				if len(vs.Names) != 1 || len(vs.Values) != 1 {
					fatal("FileStatus constant at %s: expected one name and one value", pos(vs))
				}
				bl, ok := vs.Values[0].(*ast.BasicLit)
				if !ok || bl.Kind != token.CHAR {
					fatal("FileStatus constant %s at %s: expected a rune literal, got %s", vs.Names[0].Name, pos(vs), src(vs.Values[0]))
				}
				r, _, _, err := strconv.UnquoteChar(bl.Value[1:len(bl.Value)-1], '\'')
				if err != nil {
					fatal("FileStatus constant %s at %s: bad rune literal %s", vs.Names[0].Name, pos(vs), bl.Value)
				}
				status = append(status, fmt.Sprintf("(%s, %d%%Z)", cs(vs.Names[0].Name), r))
			}
		}
	}
	if len(status) == 0 {
		fatal("no FileStatus constants found in internal/git")
	}
	o.def("file_status_consts", "list (string * Z)", clist(status))

	// ---- PathType iota block
	ct := collectConsts(p)
	type kv struct {
		n string
		v int64
	}
	var pts []kv
	for n, t := range ct.typ {
		if t == "PathType" {
			pts = append(pts, kv{n, ct.ints[n]})
		}
	}
	if len(pts) == 0 {
		fatal("no PathType iota block found in internal/git")
	}
	sort.Slice(pts, func(i, j int) bool { return pts[i].v < pts[j].v })
	var ptRows []string
	for _, x := range pts {
		ptRows = append(ptRows, fmt.Sprintf("(%s, %d%%Z)", cs(x.n), x.v))
	}
	o.def("path_type_consts", "list (string * Z)", clist(ptRows))

	// ---- git.Changes: the log call and the status switch
	fd := findFunc(p, "", "Changes")
	if fd == nil {
		fatal("func Changes not found in internal/git")
	}
	var logArgs []string
	var switches []*ast.SwitchStmt
	ast.Inspect(fd.Body, func(n ast.Node) bool {
		switch x := n.(type) {
		case *ast.CallExpr:
			if id, ok := x.Fun.(*ast.Ident); ok && id.Name == "cmd" && len(x.Args) > 0 && logArgs == nil {
				if bl, ok := x.Args[0].(*ast.BasicLit); ok && bl.Kind == token.STRING && strLit(bl) == "log" {
					for _, a := range x.Args {
						switch v := a.(type) {
						case *ast.BasicLit:
							logArgs = append(logArgs, cs(strLit(v)))
						case *ast.BinaryExpr:
							if src(v) == `baseBranch + "..HEAD"` {
								logArgs = append(logArgs, cs("<base>..HEAD"))
							} else {
								fatal("git log argument at %s: unexpected expression %s", pos(v), src(v))
							}
						default:
							fatal("git log argument at %s: unexpected expression %s", pos(a), src(a))
						}
					}
				}
			}
		case *ast.SwitchStmt:
			if x.Tag != nil && src(x.Tag) == "change.Status" {
				switches = append(switches, x)
			}
		}
		return true
	})
	if logArgs == nil {
		fatal("Changes: no cmd(\"log\", ...) call found")
	}
	o.def("git_log_args", "list string", clist(logArgs))
	if len(switches) != 1 {
		fatal("Changes: expected exactly one `switch change.Status`, found %d", len(switches))
	}
	var rows []string
	for _, st := range switches[0].Body.List {
		cc := st.(*ast.CaseClause)
		if cc.List == nil {
			fatal("switch change.Status at %s: unexpected default clause", pos(cc))
		}
		var names []string
		for _, e := range cc.List {
			names = append(names, selName(e))
		}
		if len(cc.Body) == 0 {
			fatal("case at %s: empty body", pos(cc))
		}
		as, ok := cc.Body[0].(*ast.AssignStmt)
		if !ok || len(as.Lhs) != 1 || len(as.Rhs) != 1 || src(as.Lhs[0]) != "change.Path.Before.Name" {
			fatal("case at %s: expected the body to start with an assignment to change.Path.Before.Name, got %s", pos(cc), oneLine(src(cc.Body[0])))
		}
		kind := ""
		switch src(as.Rhs[0]) {
		case "srcPath":
			kind = "src"
		case `""`:
			// cleared first; must be followed by a probe `if change.Path.Before.Type != Missing { ... Before.Name = srcPath ... }`
			kind = "probe"
			found := false
			for _, b := range cc.Body[1:] {
				if is, ok := b.(*ast.IfStmt); ok && src(is.Cond) == "change.Path.Before.Type != Missing" {
					for _, ib := range is.Body.List {
						if a2, ok := ib.(*ast.AssignStmt); ok && len(a2.Lhs) == 1 && src(a2.Lhs[0]) == "change.Path.Before.Name" && src(a2.Rhs[0]) == "srcPath" {
							found = true
						}
					}
				}
			}
			if !found {
				fatal("case at %s: Before.Name is cleared but no `if change.Path.Before.Type != Missing { change.Path.Before.Name = srcPath }` follows", pos(cc))
			}
		default:
			fatal("case at %s: Before.Name is set to %s (expected srcPath or \"\")", pos(cc), src(as.Rhs[0]))
		}
		rows = append(rows, fmt.Sprintf("(%s, %s)", cstrs(names), cs(kind)))
	}
	o.def("before_switch", "list (list string * string)", clist(rows))
	o.json["file_status_consts"] = status
	o.json["before_switch"] = rows
	o.write(*outPath, *jsonPath)
}
