module pintverif/translator

go 1.22
