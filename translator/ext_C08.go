//go:build ext_C08

// translator extension for C08: how cmd/pint/main.go actionSetup applies --disabled / --enabled / --offline to the loaded
// configuration, regenerated from the Go AST into coq/Gen/C08.v.  Model/CheckSwitch.v [apply_flags] models exactly these
// three steps in this order; any other shape (a new helper, another order, another condition) is a translator error.
//
//	flag_handling : list (string * string)   (flag, action) in source order, with
//	   ("disabled", "SetDisabledChecks")          meta.cfg.SetDisabledChecks(c.StringSlice(disabledFlag))
//	   ("enabled",  "replace-when-non-empty")     X := c.StringSlice(enabledFlag); if len(X) > 0 { meta.cfg.Checks.Enabled = X }
//	   ("offline",  "DisableOnlineChecks")        if c.Bool(offlineFlag) { ...; meta.cfg.DisableOnlineChecks() }
package main

import (
	"flag"
	"fmt"
	"go/ast"
	"go/token"
	"path/filepath"
	"strconv"
	"strings"
)

func main() {
	srcDir := flag.String("src", "/repo", "pint source tree")
	outPath := flag.String("out", "C08.v", "output .v")
	jsonPath := flag.String("json", "", "output json")
	flag.Parse()

	o := newOut("C08 flag handling")
	p := loadPkg(filepath.Join(*srcDir, "cmd", "pint"))
	strs := map[string]string{}
	for _, fn := range p.names {
		for _, d := range p.files[fn].Decls {
			gd, ok := d.(*ast.GenDecl)
			if !ok || (gd.Tok != token.VAR && gd.Tok != token.CONST) {
				continue
			}
			for _, s := range gd.Specs {
				vs := s.(*ast.ValueSpec)
				for i, n := range vs.Names {
					if i < len(vs.Values) {
						if bl, ok := vs.Values[i].(*ast.BasicLit); ok && bl.Kind == token.STRING {
							if u, err := strconv.Unquote(bl.Value); err == nil {
								strs[n.Name] = u
							}
						}
					}
				}
			}
		}
	}
	fd := findFunc(p, "", "actionSetup")
	if fd == nil {
		fatal("actionSetup not found")
	}
	flagOf := func(e ast.Expr, method string) string {
		ce, ok := e.(*ast.CallExpr)
		if !ok || oneLine(src(ce.Fun)) != "c."+method || len(ce.Args) != 1 {
			return ""
		}
		if id, ok := ce.Args[0].(*ast.Ident); ok {
			return strs[id.Name]
		}
		return ""
	}
	var rows []string
	sliceVar := map[string]string{} // local variable -> flag it was read from (c.StringSlice)
	used := map[string]bool{}
	for _, st := range fd.Body.List {
		text := oneLine(src(st))
		mentions := strings.Contains(text, "disabledFlag") || strings.Contains(text, "enabledFlag") || strings.Contains(text, "offlineFlag") ||
			strings.Contains(text, ".Checks.") || strings.Contains(text, "DisabledChecks") || strings.Contains(text, "EnabledChecks") || strings.Contains(text, "OnlineChecks")
		for v := range sliceVar {
			if strings.Contains(text, v) {
				mentions = true
			}
		}
		if !mentions {
			continue
		}
		switch x := st.(type) {
		case *ast.ExprStmt:
			ce, ok := x.X.(*ast.CallExpr)
			if ok && oneLine(src(ce.Fun)) == "meta.cfg.SetDisabledChecks" && len(ce.Args) == 1 && flagOf(ce.Args[0], "StringSlice") == "disabled" {
				rows = append(rows, fmt.Sprintf("(%s, %s)", cs("disabled"), cs("SetDisabledChecks")))
				continue
			}
		case *ast.AssignStmt:
			if len(x.Lhs) == 1 && len(x.Rhs) == 1 && x.Tok == token.DEFINE {
				if f := flagOf(x.Rhs[0], "StringSlice"); f != "" {
					sliceVar[selName(x.Lhs[0])] = f
					continue
				}
			}
		case *ast.IfStmt:
			cond := oneLine(src(x.Cond))
			// if len(X) > 0 { meta.cfg.Checks.Enabled = X }
			for v, f := range sliceVar {
				if cond == "len("+v+") > 0" && f == "enabled" && x.Else == nil && x.Init == nil && len(x.Body.List) == 1 &&
					oneLine(src(x.Body.List[0])) == "meta.cfg.Checks.Enabled = "+v {
					rows = append(rows, fmt.Sprintf("(%s, %s)", cs("enabled"), cs("replace-when-non-empty")))
					used[v] = true
					cond = ""
				}
			}
			if cond == "" {
				continue
			}
			// if c.Bool(offlineFlag) { meta.isOffline = true; meta.cfg.DisableOnlineChecks() }
			if flagOf(x.Cond, "Bool") == "offline" && x.Else == nil && x.Init == nil {
				calls := 0
				okBody := true
				for _, b := range x.Body.List {
					t := oneLine(src(b))
					switch t {
					case "meta.cfg.DisableOnlineChecks()":
						calls++
					case "meta.isOffline = true":
					default:
						okBody = false
					}
				}
				if okBody && calls == 1 {
					rows = append(rows, fmt.Sprintf("(%s, %s)", cs("offline"), cs("DisableOnlineChecks")))
					continue
				}
			}
		}
		fatal("actionSetup: statement `%s` at %s touches the check switches in a way the model does not know", text, pos(st))
	}
	for v, f := range sliceVar {
		if !used[v] {
			fatal("actionSetup: the value of --%s (variable %s) is read but not applied in a known way", f, v)
		}
	}
	o.b.WriteString("(* (flag, how actionSetup applies it to the loaded configuration), in source order *)\n")
	o.def("flag_handling", "list (string * string)", clist(rows))
	o.write(*outPath, *jsonPath)
}
