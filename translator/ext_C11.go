//go:build ext_C11

// translator extension for C11: the concurrency skeleton of cmd/pint/scan.go (checkRules + scanWorker) is
// extracted from the Go AST of the current tree into coq/Gen/C11.v, where it is compared with the skeleton the
// transition system Model/ScanLTS.v was written from.  Only concurrency-relevant nodes are kept (channel
// creation, send, receive, range over a channel, close, select, go, defer of close/Done, WaitGroup calls, the
// calls scanWorker(..) and summary.Report(..), return/break/continue/goto inside the protocol part, and the
// control structure that contains them); channels, the WaitGroup and the range variable are renamed by role,
// so renaming identifiers, changing buffer sizes (to any positive multiple of workers) or editing the logging /
// metrics code does not change the output.  Fails closed on shapes it does not recognise.
package main

import (
	"flag"
	"fmt"
	"go/ast"
	"go/token"
	"path/filepath"
	"strconv"
	"strings"
)

type skel struct {
	chans   map[string]string // identifier -> role name (ch1 = jobs, ch2 = results)
	wg      string            // identifier of the WaitGroup
	workers string            // name of the worker-count parameter
	caps    []string
}

func (k *skel) name(e ast.Expr) string {
	if id, ok := e.(*ast.Ident); ok {
		if r, ok := k.chans[id.Name]; ok {
			return r
		}
		return id.Name
	}
	return oneLine(src(e))
}

// capacity expression: a positive integer literal, or workers*K / K*workers with K >= 1
func (k *skel) capOK(e ast.Expr) bool {
	lit := func(x ast.Expr) (int, bool) {
		if b, ok := x.(*ast.BasicLit); ok && b.Kind == token.INT {
			n, err := strconv.Atoi(b.Value)
			return n, err == nil
		}
		return 0, false
	}
	if n, ok := lit(e); ok {
		return n >= 1
	}
	if b, ok := e.(*ast.BinaryExpr); ok && b.Op == token.MUL {
		isW := func(x ast.Expr) bool { id, ok := x.(*ast.Ident); return ok && id.Name == k.workers }
		if n, ok := lit(b.Y); ok && isW(b.X) {
			return n >= 1
		}
		if n, ok := lit(b.X); ok && isW(b.Y) {
			return n >= 1
		}
	}
	return false
}

func isChanMake(e ast.Expr) (*ast.CallExpr, bool) {
	ce, ok := e.(*ast.CallExpr)
	if !ok {
		return nil, false
	}
	if id, ok := ce.Fun.(*ast.Ident); !ok || id.Name != "make" || len(ce.Args) == 0 {
		return nil, false
	}
	_, isChan := ce.Args[0].(*ast.ChanType)
	return ce, isChan
}

// exprs: tokens of the concurrency-relevant sub-expressions of e, in source order
func (k *skel) exprs(e ast.Node, rangeVar string) (out []string) {
	if e == nil {
		return nil
	}
	ast.Inspect(e, func(n ast.Node) bool {
		switch x := n.(type) {
		case *ast.FuncLit:
			fatal("function literal outside a go/defer statement at %s: not a recognised protocol shape", pos(x))
		case *ast.UnaryExpr:
			if x.Op == token.ARROW {
				out = append(out, "recv "+k.name(x.X))
				return false
			}
		case *ast.CallExpr:
			if _, ok := isChanMake(x); ok {
				fatal("channel created outside a plain `x := make(chan ..)` at %s", pos(x))
			}
			switch f := x.Fun.(type) {
			case *ast.Ident:
				if f.Name == "close" && len(x.Args) == 1 {
					out = append(out, "close "+k.name(x.Args[0]))
					return false
				}
				if f.Name == "scanWorker" {
					var as []string
					for _, a := range x.Args {
						if id, ok := a.(*ast.Ident); ok {
							if r, ok := k.chans[id.Name]; ok {
								as = append(as, r)
								continue
							}
						}
						as = append(as, "_")
					}
					out = append(out, "call scanWorker("+strings.Join(as, ",")+")")
					return false
				}
			case *ast.SelectorExpr:
				if id, ok := f.X.(*ast.Ident); ok {
					if k.wg != "" && id.Name == k.wg {
						out = append(out, "wg."+f.Sel.Name+"("+argsSrc(x)+")")
						return false
					}
					if f.Sel.Name == "Report" && len(x.Args) == 1 {
						arg := "_"
						if a, ok := x.Args[0].(*ast.Ident); ok && a.Name == rangeVar && rangeVar != "" {
							arg = "received"
						}
						out = append(out, "call Report("+arg+")")
						return false
					}
				}
			}
		}
		return true
	})
	return out
}

func block(tag string, body []string) []string {
	if len(body) == 0 {
		return nil
	}
	return []string{tag + "{ " + strings.Join(body, " ; ") + " }"}
}

func (k *skel) stmts(list []ast.Stmt, rangeVar string, inProtocol *bool) (out []string) {
	for _, s := range list {
		out = append(out, k.stmt(s, rangeVar, inProtocol)...)
	}
	return out
}

func (k *skel) goBody(call *ast.CallExpr, rangeVar string, inProtocol *bool) []string {
	if fl, ok := call.Fun.(*ast.FuncLit); ok && len(call.Args) == 0 {
		return k.stmts(fl.Body.List, rangeVar, inProtocol)
	}
	return k.exprs(call, rangeVar)
}

func (k *skel) stmt(s ast.Stmt, rangeVar string, inProtocol *bool) []string {
	switch x := s.(type) {
	case nil:
		return nil
	case *ast.AssignStmt:
		if len(x.Rhs) == 1 && len(x.Lhs) == 1 {
			if ce, ok := isChanMake(x.Rhs[0]); ok {
				id, ok := x.Lhs[0].(*ast.Ident)
				if !ok || len(ce.Args) != 2 || x.Tok != token.DEFINE {
					fatal("unrecognised channel creation at %s (need `x := make(chan T, cap)`)", pos(x))
				}
				if !k.capOK(ce.Args[1]) {
					fatal("channel capacity %q at %s is not a positive constant or a positive multiple of the worker count", src(ce.Args[1]), pos(x))
				}
				role := fmt.Sprintf("ch%d", len(k.chans)+1)
				k.chans[id.Name] = role
				k.caps = append(k.caps, oneLine(src(ce.Args[1])))
				*inProtocol = true
				return []string{"make " + role}
			}
			if cl, ok := x.Rhs[0].(*ast.CompositeLit); ok && oneLine(src(cl.Type)) == "sync.WaitGroup" {
				if id, ok := x.Lhs[0].(*ast.Ident); ok {
					k.wg = id.Name
					return nil
				}
			}
		}
		var out []string
		for _, e := range x.Rhs {
			out = append(out, k.exprs(e, rangeVar)...)
		}
		for _, e := range x.Lhs {
			out = append(out, k.exprs(e, rangeVar)...)
		}
		return out
	case *ast.DeclStmt:
		if gd, ok := x.Decl.(*ast.GenDecl); ok && gd.Tok == token.VAR {
			for _, sp := range gd.Specs {
				vs := sp.(*ast.ValueSpec)
				if vs.Type != nil && oneLine(src(vs.Type)) == "sync.WaitGroup" && len(vs.Names) == 1 {
					k.wg = vs.Names[0].Name
				}
			}
		}
		return k.exprs(x, rangeVar)
	case *ast.ExprStmt:
		return k.exprs(x.X, rangeVar)
	case *ast.SendStmt:
		return append(k.exprs(x.Value, rangeVar), "send "+k.name(x.Chan))
	case *ast.GoStmt:
		b := k.goBody(x.Call, rangeVar, inProtocol)
		if len(b) == 0 {
			return []string{"go{ }"}
		}
		return block("go", b)
	case *ast.DeferStmt:
		b := k.goBody(x.Call, rangeVar, inProtocol)
		return block("defer", b)
	case *ast.ReturnStmt:
		var out []string
		for _, e := range x.Results {
			out = append(out, k.exprs(e, rangeVar)...)
		}
		if *inProtocol {
			out = append(out, "return")
		}
		return out
	case *ast.BranchStmt:
		if *inProtocol {
			return []string{strings.ToLower(x.Tok.String())}
		}
		return nil
	case *ast.BlockStmt:
		return k.stmts(x.List, rangeVar, inProtocol)
	case *ast.LabeledStmt:
		return k.stmt(x.Stmt, rangeVar, inProtocol)
	case *ast.IncDecStmt:
		return k.exprs(x.X, rangeVar)
	case *ast.IfStmt:
		pre := append(k.stmt(x.Init, rangeVar, inProtocol), k.exprs(x.Cond, rangeVar)...)
		th := k.stmts(x.Body.List, rangeVar, inProtocol)
		el := k.stmt(x.Else, rangeVar, inProtocol)
		if len(th) == 0 && len(el) == 0 {
			return pre
		}
		o := "if{ " + strings.Join(th, " ; ") + " }"
		if len(el) > 0 {
			o += " else{ " + strings.Join(el, " ; ") + " }"
		}
		return append(pre, o)
	case *ast.ForStmt:
		pre := append(k.stmt(x.Init, rangeVar, inProtocol), k.exprs(x.Cond, rangeVar)...)
		body := append(k.stmts(x.Body.List, rangeVar, inProtocol), k.stmt(x.Post, rangeVar, inProtocol)...)
		return append(pre, block("loop", body)...)
	case *ast.RangeStmt:
		if id, ok := x.X.(*ast.Ident); ok {
			if role, ok := k.chans[id.Name]; ok {
				rv := ""
				if kid, ok := x.Key.(*ast.Ident); ok {
					rv = kid.Name
				}
				body := k.stmts(x.Body.List, rv, inProtocol)
				return []string{"range " + role + "{ " + strings.Join(body, " ; ") + " }"}
			}
		}
		pre := k.exprs(x.X, rangeVar)
		return append(pre, block("loop", k.stmts(x.Body.List, rangeVar, inProtocol))...)
	case *ast.SwitchStmt:
		pre := append(k.stmt(x.Init, rangeVar, inProtocol), k.exprs(x.Tag, rangeVar)...)
		var cs []string
		any := false
		for _, c := range x.Body.List {
			cc := c.(*ast.CaseClause)
			for _, e := range cc.List {
				pre = append(pre, k.exprs(e, rangeVar)...)
			}
			b := k.stmts(cc.Body, rangeVar, inProtocol)
			if len(b) > 0 {
				any = true
			}
			cs = append(cs, "case{ "+strings.Join(b, " ; ")+" }")
		}
		if !any {
			return pre
		}
		return append(pre, "switch{ "+strings.Join(cs, " ")+" }")
	case *ast.TypeSwitchStmt:
		var cs []string
		for _, c := range x.Body.List {
			cs = append(cs, k.stmts(c.(*ast.CaseClause).Body, rangeVar, inProtocol)...)
		}
		return block("switch", cs)
	case *ast.SelectStmt:
		var cs []string
		for _, c := range x.Body.List {
			cc := c.(*ast.CommClause)
			head := "default"
			if cc.Comm != nil {
				head = "case " + strings.Join(k.stmt(cc.Comm, rangeVar, inProtocol), " ; ")
			}
			cs = append(cs, head+"{ "+strings.Join(k.stmts(cc.Body, rangeVar, inProtocol), " ; ")+" }")
		}
		return []string{"select{ " + strings.Join(cs, " ") + " }"}
	case *ast.EmptyStmt:
		return nil
	default:
		fatal("unhandled statement %T at %s", s, pos(s))
	}
	return nil
}

func main() {
	srcDir := flag.String("src", "/repo", "pint source tree")
	outPath := flag.String("out", "C11.v", "output .v")
	jsonPath := flag.String("json", "", "output json")
	flag.Parse()

	o := newOut("C11 concurrency skeleton of cmd/pint/scan.go")
	pkg := loadPkg(filepath.Join(*srcDir, "cmd", "pint"))

	// ---- checkRules
	fd := findFunc(pkg, "", "checkRules")
	if fd == nil {
		fatal("func checkRules not found in cmd/pint")
	}
	k := &skel{chans: map[string]string{}}
	for _, f := range fd.Type.Params.List {
		if oneLine(src(f.Type)) == "int" && len(f.Names) == 1 && k.workers == "" {
			k.workers = f.Names[0].Name
		}
	}
	if k.workers == "" {
		fatal("checkRules has no int parameter for the worker count (%s)", pos(fd))
	}
	inProto := false
	main := k.stmts(fd.Body.List, "", &inProto)
	if len(k.chans) != 2 {
		fatal("checkRules creates %d channels, the protocol model has 2 (%s)", len(k.chans), pos(fd))
	}

	// ---- scanWorker: channel parameters take their role from the call `scanWorker(.., jobs, results)`
	wd := findFunc(pkg, "", "scanWorker")
	if wd == nil {
		fatal("func scanWorker not found in cmd/pint")
	}
	var callArgs []string
	for _, t := range main {
		if i := strings.Index(t, "call scanWorker("); i >= 0 {
			rest := t[i+len("call scanWorker("):]
			callArgs = strings.Split(rest[:strings.Index(rest, ")")], ",")
		}
	}
	wk := &skel{chans: map[string]string{}, workers: ""}
	idx := 0
	for _, f := range wd.Type.Params.List {
		for _, n := range f.Names {
			if _, isChan := f.Type.(*ast.ChanType); isChan {
				if idx >= len(callArgs) || !strings.HasPrefix(callArgs[idx], "ch") {
					fatal("scanWorker channel parameter %s is not fed with a channel of checkRules (%s)", n.Name, pos(f))
				}
				dir := "both"
				switch f.Type.(*ast.ChanType).Dir {
				case ast.RECV:
					dir = "recv-only"
				case ast.SEND:
					dir = "send-only"
				}
				wk.chans[n.Name] = callArgs[idx]
				wk.caps = append(wk.caps, callArgs[idx]+":"+dir)
			}
			idx++
		}
	}
	inW := true
	worker := wk.stmts(wd.Body.List, "", &inW)

	// ---- every other function of the package must stay away from channels of these types
	for _, fn := range pkg.names {
		for _, d := range pkg.files[fn].Decls {
			f, ok := d.(*ast.FuncDecl)
			if !ok || f.Body == nil || f == fd || f == wd {
				continue
			}
			ast.Inspect(f.Body, func(n ast.Node) bool {
				if ce, ok := n.(*ast.CallExpr); ok {
					if id, ok := ce.Fun.(*ast.Ident); ok && (id.Name == "scanWorker" || id.Name == "checkRules") && id.Name == "scanWorker" {
						fatal("scanWorker is also called from %s (%s): not covered by the protocol model", f.Name.Name, pos(ce))
					}
				}
				return true
			})
		}
	}

	o.def("check_rules_skeleton", "list string", cstrs(main))
	o.def("scan_worker_skeleton", "list string", cstrs(worker))
	o.def("scan_worker_channels", "list string", cstrs(wk.caps))
	o.def("channel_capacities_positive", "bool", cbool(true))
	o.json["check_rules_skeleton"] = main
	o.json["scan_worker_skeleton"] = worker
	o.json["capacities"] = k.caps
	o.write(*outPath, *jsonPath)
}
