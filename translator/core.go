//go:build core

package main

import (
	"flag"
	"fmt"
	"go/ast"
	"go/token"
	"path/filepath"
	"sort"
	"strings"
)

// ------------------------------------------------------------------------------------------------

func main() {
	srcDir := flag.String("src", "/repo", "pint source tree")
	outPath := flag.String("out", "Tables.v", "output .v")
	jsonPath := flag.String("json", "", "output json")
	flag.Parse()

	o := newOut("core tables")

	checksPkg := loadPkg(filepath.Join(*srcDir, "internal", "checks"))
	configPkg := loadPkg(filepath.Join(*srcDir, "internal", "config"))
	discPkg := loadPkg(filepath.Join(*srcDir, "internal", "discovery"))
	promapiPkg := loadPkg(filepath.Join(*srcDir, "internal", "promapi"))
	commentsPkg := loadPkg(filepath.Join(*srcDir, "internal", "comments"))

	genSeverity(o, checksPkg)
	genChecks(o, checksPkg, configPkg, discPkg)
	genStates(o, configPkg, discPkg)
	genErrors(o, checksPkg, promapiPkg)
	genComments(o, commentsPkg)
	genDropped(o, *srcDir)

	o.write(*outPath, *jsonPath)
}

// ------------------------------------------------------------------------------------------------
// C05: severities

func genSeverity(o *out, p *pkgFiles) {
	ct := collectConsts(p)
	type kv struct {
		k string
		v int64
	}
	var sev []kv
	for k, v := range ct.ints {
		if ct.typ[k] == "Severity" {
			sev = append(sev, kv{k, v})
		}
	}
	if len(sev) == 0 {
		fatal("no Severity iota constants found")
	}
	sort.Slice(sev, func(i, j int) bool { return sev[i].v < sev[j].v })
	var rows []string
	for _, s := range sev {
		rows = append(rows, fmt.Sprintf("(%s, %d%%Z)", cs(s.k), s.v))
	}
	o.def("severity_consts", "list (string * Z)", clist(rows))

	// ParseSeverity: switch s { case "x": return Const, nil ... default: return Const, err }
	fd := findFunc(p, "", "ParseSeverity")
	if fd == nil {
		fatal("ParseSeverity not found")
	}
	sw := onlySwitch(fd)
	rows = nil
	for _, st := range sw.Body.List {
		cc := st.(*ast.CaseClause)
		ret := onlyReturn(cc)
		id, ok := ret.Results[0].(*ast.Ident)
		if !ok {
			fatal("ParseSeverity: unexpected return %s", src(ret))
		}
		if cc.List == nil {
			if len(ret.Results) != 2 || src(ret.Results[1]) == "nil" {
				fatal("ParseSeverity: default branch must return an error (%s)", pos(cc))
			}
			continue
		}
		if len(ret.Results) != 2 || src(ret.Results[1]) != "nil" {
			fatal("ParseSeverity: case must return nil error (%s)", pos(cc))
		}
		for _, e := range cc.List {
			rows = append(rows, fmt.Sprintf("(%s, %s)", cs(strLit(e)), cs(id.Name)))
		}
	}
	o.def("parse_severity_cases", "list (string * string)", clist(rows))

	fd = findFunc(p, "Severity", "String")
	if fd == nil {
		fatal("Severity.String not found")
	}
	sw = onlySwitch(fd)
	rows = nil
	for _, st := range sw.Body.List {
		cc := st.(*ast.CaseClause)
		ret := onlyReturn(cc)
		for _, e := range cc.List {
			rows = append(rows, fmt.Sprintf("(%s, %s)", cs(src(e)), cs(strLit(ret.Results[0]))))
		}
	}
	o.def("severity_string_cases", "list (string * string)", clist(rows))

	// exit-status threshold comparisons in cmd/pint: extracted as source text of the guarding conditions
}

// ------------------------------------------------------------------------------------------------
// C08: check names, registrations, reporter/meta per check type

func genChecks(o *out, checksPkg, configPkg, discPkg *pkgFiles) {
	ct := collectConsts(checksPkg)
	var nameConsts []string
	for k := range ct.strs {
		if strings.HasSuffix(k, "CheckName") {
			nameConsts = append(nameConsts, k)
		}
	}
	sort.Strings(nameConsts)
	var rows []string
	for _, k := range nameConsts {
		rows = append(rows, fmt.Sprintf("(%s, %s)", cs(k), cs(ct.strs[k])))
	}
	o.def("check_name_consts", "list (string * string)", clist(rows))

	resolve := func(e ast.Expr) string {
		n := selName(e)
		v, ok := ct.strs[n]
		if !ok {
			fatal("%s: %s is not a string constant of package checks", pos(e), n)
		}
		return v
	}
	var names, online []string
	for _, e := range findVarSlice(checksPkg, "CheckNames") {
		names = append(names, resolve(e))
	}
	for _, e := range findVarSlice(checksPkg, "OnlineChecks") {
		online = append(online, resolve(e))
	}
	o.def("check_names", "list string", cstrs(names))
	o.def("online_checks", "list string", cstrs(online))
	o.json["check_names"] = names
	o.json["online_checks"] = online

	// check types: methods Reporter() and Meta(); constructors New*Check returning the type.
	type checkType struct {
		typ, reporter, ctor string
		online, always      bool
		states              []string
		reporterSites       []string
	}
	types := map[string]*checkType{}
	for _, fn := range checksPkg.names {
		for _, d := range checksPkg.files[fn].Decls {
			fd, ok := d.(*ast.FuncDecl)
			if !ok {
				continue
			}
			if fd.Recv != nil && len(fd.Recv.List) == 1 {
				recv := strings.TrimPrefix(src(fd.Recv.List[0].Type), "*")
				switch fd.Name.Name {
				case "Reporter":
					if fd.Type.Results == nil || len(fd.Type.Results.List) != 1 || src(fd.Type.Results.List[0].Type) != "string" {
						continue
					}
					t := types[recv]
					if t == nil {
						t = &checkType{typ: recv}
						types[recv] = t
					}
					if len(fd.Body.List) != 1 {
						fatal("%s.Reporter: expected single return", recv)
					}
					ret, ok := fd.Body.List[0].(*ast.ReturnStmt)
					if !ok {
						fatal("%s.Reporter: expected return", recv)
					}
					if id, ok := ret.Results[0].(*ast.Ident); ok {
						v, ok := ct.strs[id.Name]
						if !ok {
							fatal("%s.Reporter returns unknown constant %s", recv, id.Name)
						}
						t.reporter = v
					} else {
						t.reporter = "<dynamic:" + src(ret.Results[0]) + ">"
					}
				case "Meta":
					t := types[recv]
					if t == nil {
						t = &checkType{typ: recv}
						types[recv] = t
					}
					if len(fd.Body.List) != 1 {
						fatal("%s.Meta: expected single return", recv)
					}
					ret, ok := fd.Body.List[0].(*ast.ReturnStmt)
					if !ok {
						fatal("%s.Meta: expected return", recv)
					}
					cl, ok := ret.Results[0].(*ast.CompositeLit)
					if !ok {
						fatal("%s.Meta: expected composite literal", recv)
					}
					seen := map[string]bool{}
					for _, el := range cl.Elts {
						kv, ok := el.(*ast.KeyValueExpr)
						if !ok {
							fatal("%s.Meta: expected key: value", recv)
						}
						k := src(kv.Key)
						seen[k] = true
						switch k {
						case "Online":
							t.online = boolLit(kv.Value)
						case "AlwaysEnabled":
							t.always = boolLit(kv.Value)
						case "States":
							scl, ok := kv.Value.(*ast.CompositeLit)
							if !ok {
								fatal("%s.Meta: States must be a literal", recv)
							}
							for _, se := range scl.Elts {
								t.states = append(t.states, selName(se))
							}
						default:
							fatal("%s.Meta: unknown field %s", recv, k)
						}
					}
					if !seen["States"] {
						fatal("%s.Meta: no States", recv)
					}
				}
			} else if fd.Recv == nil && strings.HasPrefix(fd.Name.Name, "New") && fd.Type.Results != nil && len(fd.Type.Results.List) == 1 {
				rt := strings.TrimPrefix(src(fd.Type.Results.List[0].Type), "*")
				if t, ok := types[rt]; ok {
					t.ctor = fd.Name.Name
				} else {
					types[rt] = &checkType{typ: rt, ctor: fd.Name.Name}
				}
			}
		}
	}
	// Reporter: fields in Problem literals, per file -> attributed to receiver types via enclosing method.
	for _, fn := range checksPkg.names {
		for _, d := range checksPkg.files[fn].Decls {
			fd, ok := d.(*ast.FuncDecl)
			if !ok || fd.Body == nil {
				continue
			}
			recv := ""
			if fd.Recv != nil && len(fd.Recv.List) == 1 {
				recv = strings.TrimPrefix(src(fd.Recv.List[0].Type), "*")
			}
			ast.Inspect(fd.Body, func(n ast.Node) bool {
				cl, ok := n.(*ast.CompositeLit)
				if !ok {
					return true
				}
				if cl.Type == nil || !strings.HasSuffix(src(cl.Type), "Problem") {
					return true
				}
				for _, el := range cl.Elts {
					if kv, ok := el.(*ast.KeyValueExpr); ok && src(kv.Key) == "Reporter" {
						site := src(kv.Value)
						if t, ok := types[recv]; ok && recv != "" {
							t.reporterSites = append(t.reporterSites, site)
						} else if recv == "" {
							// free function (problemFromError, parseRuleError ...) recorded under the function name
							k := "func:" + fd.Name.Name
							if types[k] == nil {
								types[k] = &checkType{typ: k}
							}
							types[k].reporterSites = append(types[k].reporterSites, site)
						}
					}
				}
				return true
			})
			// calls problemFromError(err, rule, <reporter>, ...)
			ast.Inspect(fd.Body, func(n ast.Node) bool {
				ce, ok := n.(*ast.CallExpr)
				if !ok {
					return true
				}
				if id, ok := ce.Fun.(*ast.Ident); ok && id.Name == "problemFromError" && len(ce.Args) >= 3 {
					if t, ok := types[recv]; ok && recv != "" {
						t.reporterSites = append(t.reporterSites, src(ce.Args[2]))
					}
				}
				return true
			})
		}
	}
	var tnames []string
	for k, t := range types {
		if t.reporter == "" || strings.HasPrefix(k, "func:") {
			continue
		}
		tnames = append(tnames, k)
	}
	sort.Strings(tnames)
	rows = nil
	var jrows []map[string]any
	for _, k := range tnames {
		t := types[k]
		if t.ctor == "" {
			fatal("check type %s has no New* constructor", k)
		}
		sites := map[string]bool{}
		for _, s := range t.reporterSites {
			sites[s] = true
		}
		var ss []string
		for s := range sites {
			ss = append(ss, s)
		}
		sort.Strings(ss)
		rows = append(rows, fmt.Sprintf("{| ct_type := %s; ct_ctor := %s; ct_reporter := %s; ct_online := %s; ct_always := %s; ct_states := %s; ct_sites := %s |}",
			cs(t.typ), cs(t.ctor), cs(t.reporter), cbool(t.online), cbool(t.always), cstrs(t.states), cstrs(ss)))
		jrows = append(jrows, map[string]any{"type": t.typ, "ctor": t.ctor, "reporter": t.reporter, "online": t.online, "always": t.always, "states": t.states})
	}
	o.b.WriteString("Record check_type := { ct_type : string; ct_ctor : string; ct_reporter : string; ct_online : bool; ct_always : bool; ct_states : list string; ct_sites : list string }.\n\n")
	o.def("check_types", "list check_type", "[\n   "+strings.Join(rows, ";\n   ")+"\n  ]")
	o.json["check_types"] = jrows

	// registrations in internal/config/parsed_rule.go
	rows = nil
	var regs []map[string]any
	f := configPkg.files["parsed_rule.go"]
	if f == nil {
		fatal("internal/config/parsed_rule.go not found")
	}
	for _, d := range f.Decls {
		fd, ok := d.(*ast.FuncDecl)
		if !ok || fd.Body == nil {
			continue
		}
		ast.Inspect(fd.Body, func(n ast.Node) bool {
			ce, ok := n.(*ast.CallExpr)
			if !ok {
				return true
			}
			id, ok := ce.Fun.(*ast.Ident)
			if !ok {
				return true
			}
			var nameArg, checkArg, tagsArg ast.Expr
			switch id.Name {
			case "newParsedRule":
				if len(ce.Args) != 5 {
					fatal("newParsedRule call with %d args at %s", len(ce.Args), pos(ce))
				}
				nameArg, checkArg, tagsArg = ce.Args[2], ce.Args[3], ce.Args[4]
			case "baseParsedRule":
				if len(ce.Args) != 4 {
					fatal("baseParsedRule call with %d args at %s", len(ce.Args), pos(ce))
				}
				nameArg, checkArg, tagsArg = ce.Args[1], ce.Args[2], ce.Args[3]
			default:
				return true
			}
			cc, ok := checkArg.(*ast.CallExpr)
			if !ok {
				fatal("registration at %s: check argument is not a constructor call: %s", pos(ce), src(checkArg))
			}
			ctor := selName(cc.Fun)
			name := resolve(nameArg)
			perServer := src(tagsArg) != "nil"
			rows = append(rows, fmt.Sprintf("{| rg_site := %s; rg_fn := %s; rg_name := %s; rg_ctor := %s; rg_per_server := %s |}",
				cs(pos(ce)), cs(fd.Name.Name), cs(name), cs(ctor), cbool(perServer)))
			regs = append(regs, map[string]any{"site": pos(ce), "fn": fd.Name.Name, "name": name, "ctor": ctor})
			return true
		})
	}
	if len(rows) < 20 {
		fatal("only %d check registrations found in parsed_rule.go", len(rows))
	}
	o.b.WriteString("Record registration := { rg_site : string; rg_fn : string; rg_name : string; rg_ctor : string; rg_per_server : bool }.\n\n")
	o.def("registrations", "list registration", "[\n   "+strings.Join(rows, ";\n   ")+"\n  ]")
	o.json["registrations"] = regs
}

// ------------------------------------------------------------------------------------------------
// C03/C09: change states

func genStates(o *out, configPkg, discPkg *pkgFiles) {
	dct := collectConsts(discPkg)
	type kv struct {
		k string
		v int64
	}
	var st []kv
	for k, v := range dct.ints {
		if dct.typ[k] == "ChangeType" {
			st = append(st, kv{k, v})
		}
	}
	sort.Slice(st, func(i, j int) bool { return st[i].v < st[j].v })
	var rows []string
	for _, s := range st {
		rows = append(rows, fmt.Sprintf("(%s, %d%%Z)", cs(s.k), s.v))
	}
	if len(rows) == 0 {
		fatal("no ChangeType constants")
	}
	o.def("change_type_consts", "list (string * Z)", clist(rows))

	cct := collectConsts(configPkg)
	res := func(e ast.Expr) string {
		v, ok := cct.strs[selName(e)]
		if !ok {
			fatal("%s is not a string constant in config", src(e))
		}
		return v
	}
	var ci, anyS []string
	for _, e := range findVarSlice(configPkg, "CIStates") {
		ci = append(ci, res(e))
	}
	for _, e := range findVarSlice(configPkg, "AnyStates") {
		anyS = append(anyS, res(e))
	}
	o.def("ci_states", "list string", cstrs(ci))
	o.def("any_states", "list string", cstrs(anyS))

	// stateMatches: switch s { case StateX: if state == discovery.Y { return true } }
	fd := findFunc(configPkg, "", "stateMatches")
	if fd == nil {
		fatal("stateMatches not found")
	}
	rows = nil
	ast.Inspect(fd.Body, func(n ast.Node) bool {
		cc, ok := n.(*ast.CaseClause)
		if !ok {
			return true
		}
		for _, e := range cc.List {
			name := res(e)
			var targets []string
			all := false
			for _, st := range cc.Body {
				switch s := st.(type) {
				case *ast.ReturnStmt:
					if src(s.Results[0]) == "true" {
						all = true
					}
				case *ast.IfStmt:
					be, ok := s.Cond.(*ast.BinaryExpr)
					if !ok || be.Op != token.EQL {
						fatal("stateMatches: unexpected condition %s", src(s.Cond))
					}
					targets = append(targets, selName(be.Y))
				default:
					fatal("stateMatches: unexpected statement at %s", pos(st))
				}
			}
			if all {
				targets = []string{"*"}
			}
			rows = append(rows, fmt.Sprintf("(%s, %s)", cs(name), cstrs(targets)))
		}
		return true
	})
	o.def("state_matches_cases", "list (string * list string)", clist(rows))
}

// ------------------------------------------------------------------------------------------------
// C15: error classification tables

func genErrors(o *out, checksPkg, promapiPkg *pkgFiles) {
	ct := collectConsts(promapiPkg)
	// decodeErrorType: switch s { case "x": return ErrX }
	fd := findFunc(promapiPkg, "", "decodeErrorType")
	if fd == nil {
		fatal("decodeErrorType not found")
	}
	sw := onlySwitch(fd)
	var rows []string
	for _, st := range sw.Body.List {
		cc := st.(*ast.CaseClause)
		ret := onlyReturn(cc)
		id := src(ret.Results[0])
		if cc.List == nil {
			rows = append(rows, fmt.Sprintf("(%s, %s)", cs("<default>"), cs(id)))
			continue
		}
		for _, e := range cc.List {
			rows = append(rows, fmt.Sprintf("(%s, %s)", cs(src(e)), cs(id)))
		}
	}
	_ = ct
	o.def("decode_error_type_cases", "list (string * string)", clist(rows))

	// IsUnavailableError: switch on e1.ErrorType() ... case ErrServer: return true ... default false
	fd = findFunc(promapiPkg, "", "IsUnavailableError")
	if fd == nil {
		fatal("IsUnavailableError not found")
	}
	o.def("is_unavailable_src", "string", cs(oneLine(src(fd.Body))))
}

// ------------------------------------------------------------------------------------------------
// C07/C10: comment types

func genComments(o *out, p *pkgFiles) {
	ct := collectConsts(p)
	var keys []string
	for k := range ct.strs {
		if strings.HasSuffix(k, "Comment") {
			keys = append(keys, k)
		}
	}
	sort.Strings(keys)
	var rows []string
	for _, k := range keys {
		rows = append(rows, fmt.Sprintf("(%s, %s)", cs(k), cs(ct.strs[k])))
	}
	o.def("comment_consts", "list (string * string)", clist(rows))
}

// ------------------------------------------------------------------------------------------------
// C18: sites where an error is dropped after load (x, _ := f(...)) or a Must* helper is used on config values

func genDropped(o *out, srcDir string) {
	var rows []string
	for _, sub := range []string{"internal/config", "internal/checks"} {
		p := loadPkg(filepath.Join(srcDir, sub))
		for _, fn := range p.names {
			for _, d := range p.files[fn].Decls {
				fd, ok := d.(*ast.FuncDecl)
				if !ok || fd.Body == nil {
					continue
				}
				ast.Inspect(fd.Body, func(n ast.Node) bool {
					switch s := n.(type) {
					case *ast.AssignStmt:
						if len(s.Lhs) == 2 && len(s.Rhs) == 1 {
							if id, ok := s.Lhs[1].(*ast.Ident); ok && id.Name == "_" {
								if ce, ok := s.Rhs[0].(*ast.CallExpr); ok {
									fnm := src(ce.Fun)
									if isMapOrTypeAssert(s.Rhs[0]) {
										return true
									}
									rows = append(rows, fmt.Sprintf("{| ds_file := %s; ds_func := %s; ds_kind := \"dropped\"; ds_callee := %s; ds_args := %s |}",
										cs(sub+"/"+fn), cs(fd.Name.Name), cs(fnm), cs(oneLine(argsSrc(ce)))))
								}
							}
						}
					case *ast.CallExpr:
						fnm := src(s.Fun)
						base := fnm
						if i := strings.LastIndex(base, "."); i >= 0 {
							base = base[i+1:]
						}
						if strings.HasPrefix(base, "Must") && fd.Name.Name != base {
							allConst := true
							for _, a := range s.Args {
								if _, ok := a.(*ast.BasicLit); !ok {
									allConst = false
								}
							}
							if !allConst {
								rows = append(rows, fmt.Sprintf("{| ds_file := %s; ds_func := %s; ds_kind := \"must\"; ds_callee := %s; ds_args := %s |}",
									cs(sub+"/"+fn), cs(fd.Name.Name), cs(fnm), cs(oneLine(argsSrc(s)))))
							}
						}
					}
					return true
				})
			}
		}
	}
	o.b.WriteString("Record dropped_site := { ds_file : string; ds_func : string; ds_kind : string; ds_callee : string; ds_args : string }.\n\n")
	o.def("dropped_error_sites", "list dropped_site", "[\n   "+strings.Join(rows, ";\n   ")+"\n  ]")
}

func isMapOrTypeAssert(e ast.Expr) bool { return false }
