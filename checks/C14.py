import pv
READY = True

SPEC = {
    "targets": ["Properties/C14.vo", "Run/C14.vo"],
    "theorems": {"Properties.C14": ["C14_lock_mutex", "C14_inflight_bound", "C14_no_identical_inflight",
                                    "C14_side_cond_necessary", "C14_lock_key_determines_cache_keys", "C14_no_identical_inflight_questions",
                                    "C14_source_structure", "C14_gc_atomicity_necessary", "C14_served_once", "C14_one_run_per_lifetime",
                                    "C14_no_lost_unlock", "C14_cache_model_refines_lts", "C14_process_job_refines_lts",
                                    "C14_timed_refines_untimed", "C14_answer_reused_for_cache_lifetime", "C14_timed_invariants",
                                    "C14_nonvacuous"]},
    "harness_args": lambda tier: ["C14", "--n", 600 if tier == "quick" else 6000, "--stress", 150 if tier == "quick" else 1500],
    "search_args": lambda tier: ["C14", "--n", 600, "--stress", 200],
    "harness_timeout": 1200,
    "level": "proof",
    "trusted_base": [
        "Coq 8.16.1 kernel + VM (vm_compute); no axioms (Print Assumptions: closed under the global context); plain stdlib lists",
        "the labelled transition system of Model/KeyLock.v is hand-written: its atomic actions (lock returns / enqueue / take / cache "
        "check / request end + cache.set / reply / unlock / gc) are assumed to be what sync.Cond, channels, sync.Mutex and the Go "
        "scheduler provide (runtime remainder: partial)",
        "correspondence (sequential): queryCache.get/set/gc with an injected clock vs Model.KeyLockCache; partitionLocker driven by a "
        "deterministic scheduler (goroutines parked on channels) vs the LTS lock/unlock actions and its held set; processJob with "
        "scripted queriers vs Model.KeyLockCache.process_job; the composed pipeline (real Query/Config/Flags/Metadata through lock, "
        "queue, workers, cache with injected clock, HTTP to a scripted server) one call at a time, with clock advances onto/around "
        "every expiry and staleness instant and cache gcs in between, vs the TIMED transition system (Model/KeyLockTimed.v, TTLs = the "
        "CacheTTL() of the real query types): lock/enqueue/take/check/(end)/reply/unlock, tick, gc — all through overlay export shims; the two models are related by theorems "
        "C14_cache_model_refines_lts / C14_process_job_refines_lts",
        "key construction: coq/Gen/C14.v (lock key parts and hashed cache key parts per API method, plus 'Wait is re-checked in a loop' "
        "and 'processJob is only called by queryWorker') is regenerated from the Go AST by translator/ext_C14.go on every run (fails "
        "closed on unknown shapes); Model/KeyLockKeys.v only interprets that table; additionally compared on every run with the lock "
        "keys the real client holds (same partition of the sample questions and the same strings)",
        "key table (observed every run): each question asked alone, lock keys snapshotted from inside the server handler; identical "
        "wire requests must be guarded by the same lock key (the side condition of the theorems)",
        "source-level atomicity facts re-read from the Go AST every run (obligation C14_source_structure): queryCache.get/set/gc each hold "
        "c.mu for their whole body, lock's Wait is re-checked in a loop, processJob is only called by queryWorker",
        "concurrency oracle (testing, not proof): stress runs (one in three with the cache cleaner looping concurrently, plus two directed "
        "sweeps of 165 distinct questions x 3 with the cleaner running) of the real client + worker pool + net/http against a fake server with a "
        "client-side transport recorder (request start .. response body closed)",
        "harness: schedulers, recorders, fake server, term printers",
    ],
    "assumptions": [
        "side_cond (callers taking different lock keys ask disjoint sets of cache keys) is PROVED for every set of callers asking questions "
        "of the generated key table (C14_no_identical_inflight_questions), range slices included; remaining premises: a caller's own "
        "requests (slices) are pairwise different, and cache keys / lock keys are numbered injectively",
        "xxhash cache keys are treated as injective (no collisions between different requests)",
"the theorems speak about cache keys; 'identical request on the wire => identical cache key' is checked by the stress oracle only (it failed between "
        "d06b876 and c5439fe: found here, fixed)",
        "in flight is measured at the client (RoundTrip start .. body closed): the server may still work on a request the client cancelled",
    ],
}


def race_phase(ctx):
    """Thorough tier: the same stress runs with a `go build -race` binary (when a race build works offline).
    A data race report is a concrete failing schedule of the real code => violation."""
    import os, re
    if not ctx.build_harness():
        return
    tag = os.path.basename(ctx.pv).split("-")[-1]
    ov = os.path.join(pv.BUILD, "overlay-%s-%s.json" % (ctx.prop, tag))
    racebin = ctx.pv + "-race"
    with pv.Lock("gobuild-" + tag):
        rc, out = pv.sh(["go", "build", "-race", "-tags", "verif", "-overlay", ov, "-o", racebin, "./cmd/pint-verif-" + ctx.prop.lower()],
                        cwd=pv.SRC, env=pv.GOENV, timeout=1200)
    if rc != 0:
        ctx.notes.append("race build not available: " + out[-300:])
        ctx.log("race build failed (skipped):", out[-300:])
        return
    wd = os.path.join(ctx.work, "race")
    os.makedirs(wd, exist_ok=True)
    env = dict(pv.GOENV, VERIF_SEED=str(ctx.seed + 1000), PINT_SRC=pv.SRC, GORACE="halt_on_error=0")
    rc, out = pv.sh([racebin, "C14", "--n", "200", "--stress", "600"], cwd=wd, env=env, timeout=1200)
    ctx.log("race phase: rc=%d, %d bytes of output" % (rc, len(out)))
    races = re.findall(r"WARNING: DATA RACE.*?={18}", out, re.S)
    if races:
        ctx.add_violation("data race reported by the Go race detector during C14 stress runs", {"race_report": races[0][:4000]})
    elif rc != 0:
        ctx.broken.append("race-enabled harness failed (rc=%d): %s" % (rc, out[-800:]))
    else:
        import json
        try:
            rep = json.load(open(os.path.join(wd, "report.json")))
            known = set(k.get("id") for k in ctx.known_findings())
            for of in rep.get("oracle_failures") or []:
                if of.get("known") in known:
                    continue
                ctx.add_violation("(race build) " + str(of.get("what")), of.get("case"))
            ctx.race_note = "race build: %d evaluations, no data race reported" % rep.get("evaluations", 0)
            ctx.log(ctx.race_note)
        except Exception as e:  # pragma: no cover
            ctx.broken.append("race phase report unreadable: %r" % (e,))


def run(ctx):
    if ctx.tier == "thorough":
        race_phase(ctx)
    return pv.standard(ctx, SPEC)


MANIFEST = {
    "text": "Theorems (Coq, no axioms) about ALL reachable states of a labelled transition system of one Prometheus server's "
            "single-flight machinery (keyed condition-variable lock, job queue, worker pool of any size, cache; any number of callers, "
            "any interleaving, answers, errors and evictions), by induction on steps: a lock key has at most one holder and the held "
            "set is exactly the keys of callers inside their call; requests in flight <= concurrency; if the lock key determines the "
            "cache keys no two identical requests are in flight (or anywhere in the pool) at once; within a cache lifetime a cache key "
            "has at most one successful request and every caller observes that value; a call ends only through its unlock and no "
            "step can get stuck before it (error paths included). A TIMED version of the system (injected clock, cache entries with "
            "expiry and last-read instants, gc evicting exactly what queryCache.gc evicts now) is proved to refine the untimed one, "
            "and 'a successful answer is reused for its cache lifetime' is proved of it: stored with expiry now+TTL, every lookup "
            "while cached is a hit without a request, value and expiry never change, only a gc past the expiry or after maxStale "
            "without a read removes it. PARTIAL: the runtime semantics of sync.Cond/channels/scheduler are "
            "assumed to match the LTS actions; they are exercised, not proved, by stress runs of the real client (and -race in the "
            "thorough tier when available). The side condition 'the lock key determines the cache keys' is PROVED from the key "
            "construction table that a translator extension regenerates from the Go AST on every run (lock key parts / hashed cache "
            "key parts of Query, RangeQuery, Config, Flags, Metadata): a decidable criterion, proved sound for all values of the "
            "variables, holds of the current table (range slices included, fix fb76e32) and fails of the pre-fix table with the "
            "lookback in the range lock key; hence no_identical_inflight holds for all callers asking such questions without a side "
            "condition on keys. Tie: sequential traces of queryCache (injected clock), partitionLocker "
            "(deterministic scheduler), processJob (scripted queriers) and of the composed pipeline compared with the models on every "
            "run; the sequential cache/processJob model is proved to refine the LTS cache actions.",
    "note": "Coq 8.16.1 kernel+VM, no axioms; LTS hand-written, runtime remainder (sync.Cond, channels, scheduler, memory model) "
            "assumed = partial; sequential projections tied by differential execution through overlay exports; concurrency itself "
            "only tested (stress + recorder); cache-key hash collisions ignored.",
    "technique": "Coq invariants of a labelled transition system by induction on steps + sequential differential correspondence + "
                 "stress oracle on the real client",
}


def replay(path):
    """bin/check C14 --replay F: re-run the stored case through the implementation and the oracle (and the model)."""
    import os, re
    ctx = pv.Ctx("C14", "quick", 1)
    if not ctx.build_harness():
        print("harness does not build:", ctx.broken)
        return 1
    full = path if os.path.isabs(path) else os.path.join(pv.VERIF, path)
    rc, out = ctx.harness(["C14", "--replay", full], timeout=600)
    print(out)
    m = re.search(r"model case file: (\S+)", out)
    if m:
        ctx.make(SPEC["targets"])
        res = ctx.coqc_cases([m.group(1)])
        for f, (rc2, o) in res.items():
            mm = pv.parse_M(o)
            print("model vs implementation:", "agree" if mm == [] else "DISAGREE %s" % (mm,))
    return 0
