import pv

SPEC = {
    "targets": ["Properties/C02.vo", "Run/C02.vo"],
    "theorems": {"Properties.C02": [
        "C02_strict_rules_wellformed", "C02_relaxed_rules_wellformed",
        "C02_routing_total_strict", "C02_routing_total_relaxed",
        "C02_lines_strict", "C02_lines_relaxed", "C02_lines_oracle", "C02_positions_total",
        "C02_render_total", "C02_render_crash_iff", "C02_console_in_bounds", "C02_error_report_renders_strict",
        "C02_nonvacuous", "C02_lines_nonvacuous"],
        "Properties.C19": ["C19_relaxed_total"]},
    "harness_args": lambda tier: ["C02", "--n", 400, "--bin-variants", 1] if tier == "quick" else ["C02", "--n", 8000, "--bin-variants", 4],
    "search_args": lambda tier: ["C02", "--n", 2500, "--bin-variants", 2],
    "harness_timeout": 2400,
    "level": "proof",
    "trusted_base": [
        "Coq 8.16.1 kernel + VM; no axioms (Print Assumptions: closed under the global context)",
        "hand-written Gallina model of the parser (Model/Parser.v), of readRules for comment-free files, the error routing of "
        "GetChecksForEntry and parseRuleError (Model/Routing.v); tied on every run by forest-level correspondence (every field of "
        "File/Group/Rule, both modes) plus entry/routing correspondence against the real discovery and GetChecksForEntry",
        "external oracles (NewPositionRange line extent, name/duration validators) are Section variables with no assumed behaviour",
        "runtime remainder NOT covered by any theorem (labelled partial): panics/hangs inside yaml.v3, the PromQL parser, text/template, "
        "the ~25 opaque checks and the renderers; covered by execution only: in-process pipeline (4 mode/schema variants, 4 renderers) and the "
        "real pint binary (console+JSON+checkstyle, TeamCity) on every generated/mutated/fixture file under timeout",
        "harness: generators, fixture extraction (repo *.yml/*.yaml, txtar sections of cmd/pint/tests, fuzz seeds), serialisers, "
        "known-finding class predicates",
    ],
    "assumptions": [
        "files with `# pint` control comments are outside the Routing model (entries are compared only for comment-free files); "
        "they still go through the crash detector",
        "default configuration, offline checks only",
    ],
}


def run(ctx):
    return pv.standard(ctx, SPEC)

MANIFEST = {
    "text": "PARTIAL by nature (total correctness of a Go program). Proved (Coq, no axioms, all node forests, generic in every external "
            "oracle): every rule either parser mode returns is exactly one of {error set, alerting with non-empty alert+expr, recording with "
            "non-empty record+expr}; entries with a path/rule error are routed to the error check only and its problem is computed without "
            "touching a nil error, is Fatal and points at the error line; all other entries carry a complete rule; the relaxed descent "
            "terminates on every forest. Tie: forest-level correspondence of the real parser (both modes) + entries/routing correspondence "
            "against the real discovery/GetChecksForEntry. Runtime remainder (panics, hangs, unrenderable reports, line ranges outside the file) "
            "is searched for, not proved: the real in-process pipeline (strict/relaxed x prometheus/thanos, console/JSON/checkstyle/TeamCity "
            "renderers) and the real pint binary run on every file of a stream made of the repository's YAML fixtures, testscript bodies and fuzz "
            "seeds, structure-aware generated documents with per-field defects, anchors/aliases/merge keys, YAML-in-YAML wrappers and "
            "byte/line mutations (CR/CRLF, tabs, non-UTF-8, truncation, token lines, pint comments).",
    "note": "Coq 8.16.1 kernel+VM, no axioms; hand model validated by differential execution; crash/hang/renderability/line-range part is "
            "testing under timeout, labelled partial; two open known findings (embedded YAML line offsets beyond EOF; promql/regexp panic).",
    "technique": "Coq theorems over a Gallina parser/routing model + forest and entry correspondence + execution-based crash detector "
                 "(in-process pipeline and real binary, four renderers)",
}
