import pv
READY = True

SPEC = {
    "targets": ["Properties/C02.vo", "Run/C02.vo"],
    "theorems": {"Properties.C02": [
        "C02_strict_rules_wellformed", "C02_relaxed_rules_wellformed",
        "C02_routing_total_strict", "C02_routing_total_relaxed",
        "C02_lines_strict", "C02_lines_relaxed", "C02_lines_oracle", "C02_positions_total",
        "C02_render_total", "C02_render_expand_total", "C02_console_in_bounds", "C02_error_report_renders_strict",
        "C02_inject_no_panic_iff", "C02_inject_renders", "C02_inject_lines_in_file", "C02_inject_lines_complete",
        "C02_nonvacuous", "C02_lines_nonvacuous"],
        "Properties.C19": ["C19_relaxed_total"]},
    "harness_args": lambda tier: ["C02", "--n", 400, "--bin-variants", 1] if tier == "quick" else ["C02", "--n", 8000, "--bin-variants", 4],
    "search_args": lambda tier: ["C02", "--n", 800, "--bin-variants", 1],
    "harness_timeout": 2400,
    "level": "proof",
    "trusted_base": [
        "Coq 8.16.1 kernel + VM; no axioms (Print Assumptions: closed under the global context)",
        "hand-written Gallina model of the parser (Model/Parser.v), of readRules for comment-free files, the error routing of "
        "GetChecksForEntry and parseRuleError (Model/Routing.v), of the line extent of NewPositionRange (Model/YamlPosLines.v) and of "
        "LineRange.Expand / the console plain loop (Model/Render.v); tied on every run by forest-level correspondence (every field of "
        "File/Group/Rule incl. line extents, both modes), entry/routing correspondence against the real discovery and GetChecksForEntry, and "
        "correspondence of the real LineRange.Expand (in-file, empty and inverted ranges)",
        "external oracles (NewPositionRange line extent, name/duration validators) are Section variables; the lines theorems carry the explicit "
        "premise plines_inside (proved of Model/YamlPosLines) and docs_fit (checked on every case; fails only in the known class C02-lone-cr)",
        "runtime remainder NOT covered by any theorem (labelled partial): panics/hangs inside yaml.v3, the PromQL parser, text/template, "
        "the ~25 opaque checks and the renderers; covered by execution only: in-process pipeline (4 mode/schema variants, 4 renderers) and the "
        "real pint binary (console+JSON+checkstyle, TeamCity) on every generated/mutated/fixture file under timeout",
        "harness: generators, fixture extraction (repo *.yml/*.yaml, txtar sections of cmd/pint/tests, fuzz seeds), serialisers, "
        "known-finding class predicates",
    ],
    "assumptions": [
        "files with `# pint` control comments are outside the Routing model (entries are compared only for comment-free files); "
        "they still go through the crash detector",
        "default configuration, offline checks only",
    ],
}


def run(ctx):
    return pv.standard(ctx, SPEC)

MANIFEST = {
    "text": "PARTIAL by nature (total correctness of a Go program). Proved (Coq, no axioms, all node forests, generic in every external "
            "oracle): (1) every rule either parser mode returns is exactly one of {error set, alerting with non-empty alert+expr, recording with "
            "non-empty record+expr}; (2) entries with a path/rule error are routed to the error check only and its problem is computed without "
            "touching a nil error, is Fatal and points at the error line; all other entries carry a complete rule; (3) the relaxed descent "
            "terminates on every forest; (4) reported lines lie inside the file: if the coordinates yaml.v3 reported are inside the file "
            "(executable predicate docs_fit, evaluated on every correspondence case) then the yaml/parse line of every error entry, the line "
            "range of every complete rule (1 <= first <= last <= TotalLines) and the line extent of every field, label and annotation are inside "
            "the file, in both modes, incl. YAML embedded in literal block scalars; the needed bound on NewPositionRange's lines is proved of the "
            "executable loop model used by the correspondence runs, together with the absence of index panics in that loop; (5) renderer index "
            "arithmetic on line ranges: LineRange.Expand (JSON) returns First..Last for in-file ranges and is total for every range (an inverted "
            "one yields [First], fix 5f804fb), the console loop prints every line of an in-file range and never indexes outside for any range. Tie: forest-level correspondence of the real "
            "parser (both modes) + entries/routing correspondence against the real discovery/GetChecksForEntry + LineRange.Expand and InjectDiagnostics (printed lines) correspondence. "
            "Runtime remainder (panics, hangs, unrenderable reports, line ranges computed by the individual checks) is searched for, not proved: the "
            "real in-process pipeline (strict/relaxed x prometheus/thanos, console/JSON/checkstyle/TeamCity renderers) and the real pint binary run "
            "on every file of a stream made of the repository's YAML fixtures, testscript bodies and fuzz seeds, structure-aware generated "
            "documents with per-field defects, anchors/aliases/merge keys, YAML-in-YAML wrappers and byte/line mutations (CR/CRLF, tabs, "
            "non-UTF-8, truncation, token lines, pint comments).",
    "note": "Coq 8.16.1 kernel+VM, no axioms; hand models validated by differential execution on every run; crash/hang/renderability and the "
            "line ranges built by individual checks are testing under timeout, labelled partial; one open known finding: C02-lone-cr (yaml.v3 "
            "counts a lone CR / NEL / LS / PS as a line break, pint does not: line numbers beyond the file - exactly the class where the "
            "hypothesis docs_fit of theorem (4) fails on real input). Found by this check and fixed upstream since: implicit null after EOF "
            "(5430596), JSON makeslice panic (5f804fb), alias fan-out hangs (2108dfa, 07824b1), yaml error line after EOF (07824b1), panic on "
            "parenthesised PromQL string literals (53ade46).",
    "technique": "Coq theorems over Gallina parser/routing/position-lines/render models + forest, entry and Expand correspondence + "
                 "execution-based crash detector (in-process pipeline and real binary, four renderers)",
}
