import pv
READY = True

SPEC = {
    "targets": ["Properties/C08.vo", "Run/C08.vo"],
    "theorems": {"Properties.C08": [
        "C08_registered_name_is_reporter", "C08_registered_names_in_CheckNames", "C08_online_iff_listed",
        "C08_online_directions", "C08_table_hygiene",
        "C08_disabled_exact", "C08_disabled_problems_exact", "C08_enabled_exact", "C08_rule_disable_exact",
        "C08_offline_is_disable_list", "C08_offline_list_shape", "C08_table_rules_wellformed",
        "C08_table_lists_satisfy_premises", "C08_nonvacuous",
        "C08_offline_runs_no_online_check", "C08_offline_keeps_offline_checks", "C08_checks_run_in_declared_states",
        "C08_states_table", "C08_offline_flag_end_to_end", "C08_flag_handling_of_the_source",
        "C08_cli_enabled_replaces_file_list", "C08_offline_nonvacuous"]},
    "harness_args": lambda tier: ["C08", "--n", 24 if tier == "quick" else 450],
    "search_args": lambda tier: ["C08", "--n", 150],
    "level": "proof",
    "trusted_base": [
        "Coq 8.16.1 kernel + VM (vm_compute for the finite table theorems and the correspondence); no axioms",
        "translator (/verif/translator core.go, go/ast): CheckNames, OnlineChecks, Reporter()/Meta() per check type, every "
        "newParsedRule/baseParsedRule registration site of parsed_rule.go -> Gen/Tables.v (regenerated every run, fails closed)",
        "translator ext_C08.go (go/ast of cmd/pint/main.go): how actionSetup applies --disabled / --enabled / --offline (SetDisabledChecks, replace-when-non-empty, "
        "DisableOnlineChecks, in this order) -> Gen/C08.v; any other statement touching the check switches is a translator error",
        "correspondence: real config.Load + SetDisabledChecks + DisableOnlineChecks + GetChecksForEntry (overlay build of the current tree) "
        "vs Model/CheckSwitch.v on generated configs (incl. the identical check in 2-3 blocks with different selectors) x flags x entries (real finder) x command; each live check object is also compared with the generated tables",
        "inputs of the model not modelled here: isMatch verdicts (C09), comment parsing (C07/C10), regexp engine (oracle table computed with Go's regexp), HCL decoding",
        "harness export harness/shared_config/export_config.go repeats the construction half of GetChecksForEntry (ErrorCheck | baseRules ++ parseRule) to expose the parsed rules",
        "oracle on the real binary, fixed bases: pint lint --json runs (and two pint ci repositories: a removed recording rule for rule/dependency; a branch that leaves all rules untouched with checks on state any and state-scoped rule{disable} blocks) that differ from an all-kinds baseline by one "
        "--disabled/--enabled/checks{}/rule{disable}/rule{enable}/--offline, for every check name, and every CLI switch crossed with its configuration-file counterparts (--enabled x checks{enabled} with the name inside / outside the file's list, "
        "--disabled x checks{enabled}, --enabled x checks{disabled} same / other name, --disabled x checks{disabled}; documented precedence: --enabled replaces, --disabled adds, disabled wins); all 27 reporters are triggered",
        "oracle on the real binary, random bases (harness/C08/c08_pairs.go): base = 1-3 unreachable prometheus servers with tags x locked or not x --disabled values "
        "(names, String() forms name(server...), tag forms name(+tag), regexps) x --enabled x checks{disabled} x checks{enabled} x --offline x rule{enable}/rule{disable} blocks with and without match; "
        "step = one more switch (--offline, -d N, -d 'N(server)', -d 'N(+tag)', checks{disabled+=N}, rule{disable=[N]}, -e E; with checks{enabled} in the file: -e E with names inside and outside the file's list, compared with the same run without the file's list); run(base+step) must equal run(base) filtered by reporter "
        "(server-bound instances: multiplicity of the per-server 'unable to run checks' problems); the expectation never looks at pint's switching code",
    ],
    "assumptions": [
        "wf_prules / names_are_reporters are premises of the logic theorems: proved for rules built from the registration table "
        "(C08_table_rules_wellformed) and re-checked on every correspondence case",
        "a problem emitted by a check carries that check's Reporter() (table column ct_sites, C08_table_hygiene)",
        "rule{enable=[N]} overrides a global disable (documented precedence) and is excluded by the premise of the problem-level theorem",
        "from_table prs (premise of the --offline theorems): the parsed rules are built from registration sites of the generated table - what GetChecksForEntry builds for a healthy entry; "
        "re-checked on every correspondence case (table_knows)",
    ],
}


def run(ctx):
    return pv.standard(ctx, SPEC)


MANIFEST = {
    "text": "Theorems (Coq, no axioms). Finite, over tables regenerated from the Go AST on every run: every registration site of "
            "parsed_rule.go registers its check under the constant its Reporter() returns; registered names are in CheckNames; "
            "Meta().Online iff the name is in OnlineChecks. For all configurations x entries x parsed-rule lists, over a Gallina model of "
            "isEnabled / parsedRule.isEnabled / GetChecksForEntry / SetDisabledChecks / DisableOnlineChecks: appending N to the disabled list, "
            "restricting the enabled list, inserting rule{disable=[N]} and --offline each equal FILTERING the previously enabled checks by "
            "reporter (always-enabled parse errors kept, documented rule{enable} precedence stated), every other check unchanged in order. "
            "--offline and Meta().Online: for parsed rules built from the registration table, after --offline (alone or after any --disabled/--enabled flags: apply_flags) no check "
            "with Meta().Online runs except through rule{enable}, and every offline check that ran before still runs; a check only runs on entries its block matches and whose state "
            "is in its Meta().States; States are non-empty ChangeType constants and only ErrorCheck / rule/dependency declare Removed. "
            "Tied to the code by the translator and by differential execution of the real GetChecksForEntry/flag handling; the property as "
            "written is also executed on the real binary (paired runs per check name).",
    "note": "Coq 8.16.1 kernel+VM, no axioms; translator trusted for table extraction; match verdicts, comment parsing, regexp and HCL are inputs; "
            "what each check does when it runs is opaque (any behaviour); binary-level oracle is testing, used to turn a broken obligation into a replay.",
    "technique": "Coq theorems over AST-generated registration tables + fold/filter model of the routing loop + differential correspondence + paired binary runs",
}
