import pv
READY = True

SPEC = {
    "targets": ["Properties/C15.vo", "Run/C15.vo"],
    "theorems": {"Properties.C15": ["C15_answered_by_first_available", "C15_first_available_fresh",
                                    "C15_failover_characterisation", "C15_retry_iff_unavailable",
                                    "C15_query_error_not_retried", "C15_listed_query_errors",
                                    "C15_all_down_is_warning", "C15_unavailable_table",
                                    "C15_unavailable_table_design_refuted", "C15_second_call_served_from_cache",
                                    "C15_errors_leave_no_trace", "C15_recovered_upstream_answers",
                                    "C15_range_slices_collapse", "C15_multislice_failover", "C15_group_built_in_configured_order", "C15_nonvacuous"]},
    "harness_args": lambda tier: ["C15", "--tier", tier, "--n", 150 if tier == "quick" else 1500, "--workers", 160,
                                  "--binary", 60 if tier == "quick" else 500],
    "search_args": lambda tier: ["C15", "--tier", "search", "--n", 500, "--workers", 160, "--binary", 0],
    "harness_timeout": 1200,
    "level": "proof",
    "trusted_base": [
        "Coq 8.16.1 kernel + VM (vm_compute); no axioms (Print Assumptions: closed under the global context)",
        "translator ext_C15 (/verif/translator, go/ast): v1/pint ErrorType constants, decodeErrorType switch, the constants "
        "IsUnavailableError / isUnsupportedError compare with and their non-APIError defaults, IsQueryTooExpensive guard and "
        "prefixes, status-class switch and 404 branch of tryDecodingAPIError, stop condition of each FailoverGroup loop, "
        "problemFromError switch, the construction of the upstream list and the strict flag in config.newFailoverGroup -> Gen/C15.v (fails closed)",
        "correspondence: the real client (config.newFailoverGroup -> promapi.FailoverGroup -> worker pool -> net/http) against "
        "in-process fake upstreams (bound-but-not-listening socket = refused, handler that never answers = timeout, RST on accept, "
        "status x body combinations) vs Model.Failover: answering upstream, payload marker, error class, IsUnavailableError, "
        "strict flag, per-upstream request counts (client RoundTrips and server side), severity of the problem a real online check emits; "
        "a second call on the same group (cache / unsupported-API client state), with unchanged behaviour or after the upstreams changed "
        "their HTTP-level behaviour in between (fault sequences: recovery, new failure); range queries use a fixed 2h-aligned window so both "
        "calls have the same cache keys, over one slice and over three slices, with the fault on every slice or on one slice only; "
        "a sample of the assignments additionally through the real pint binary configured by .pint.hcl (uri, failover, timeout, required) "
        "with one online check enabled",
        "modelled not verified: control flow of querier.Run / stream decoders / processJob / the loops and of the five checks' error "
        "handling is hand-modelled; net/http, encoding/json + prymitive/current (body -> decodable/undecodable is an input), "
        "yaml.v3, errors.As/Is chain walking are trusted",
        "harness: fake upstreams, mapping of a fault mode to its abstract response class, observation projection",
    ],
    "assumptions": [
        "a body is classified by the harness as undecodable (empty / text / truncated JSON) or as JSON with status/errorType/error; "
        "the JSON stream decoder is not modelled",
        "multi-slice range queries: which failing slice's error is reported and how many slices are requested before cancellation depend on the "
        "schedule; the model treats a multi-slice upstream as a one-slice upstream sending the failing slice's response (theorem "
        "C15_range_slices_collapse justifies this for every schedule) and per-upstream request counts of multi-slice calls are compared as 0 / at least 1",
        "the property's 404 clause is read per DESIGN 6/C15: on config/flags/metadata a 404 marks the API unsupported and failover continues",
    ],
}


def run(ctx):
    return pv.standard(ctx, SPEC)


MANIFEST = {
    "text": "Theorems (Coq, no axioms) over an executable model of promapi's error classification and the five FailoverGroup "
            "retry loops, for every endpoint, every server list of any length and every response (any status, decodable or "
            "undecodable body, transport error): the call is answered by the first upstream that is not unavailable with that "
            "upstream's own answer or error unchanged, every earlier upstream is asked exactly once and no later one at all "
            "(induction on the server list); the loop continues exactly on transport errors, 5xx without a JSON error, JSON "
            "server_error (and 404 of a status API), so bad_data/execution/4xx/404-on-query/truncated bodies are returned as is; "
            "when every upstream is unavailable the online check emits exactly one `unable to run checks` problem of severity "
            "Warning, Bug iff the server is required; errors leave no trace in the client state, so an upstream that recovers between "
            "two identical requests answers again at once (not the cached answer of a later upstream, not a replayed error); a range "
            "query cut into slices behaves, for every schedule, like a one-slice query sending one of the slices' responses (a failing "
            "one if any fails). The classification tables are regenerated from the Go AST on every run; "
            "the model is compared with the real client on an enumeration of the nine fault modes x up to three upstreams x five "
            "endpoints (quick: all assignments in which every upstream is reached + a sample; thorough: all 4095) plus 29 extra "
            "status/body modes, fault sequences (second call after a behaviour change) and three-slice range queries with a fault on one "
            "slice, using in-process fake upstreams and a real online check per endpoint.",
    "note": "Coq 8.16.1 kernel+VM, no axioms; translator trusted for table extraction; Run/stream/processJob/loop control flow "
            "hand-modelled and validated by differential execution against the real HTTP client; net/http, JSON stream decoder, "
            "yaml and errors.As/Is trusted; slice scheduling of multi-slice range queries abstracted (any failing slice may win).",
    "technique": "Coq theorems by induction on the server list + AST-generated classification tables + exhaustive differential "
                 "correspondence with in-process fake upstreams",
}


def replay(path):
    """bin/check C15 --replay F: re-run the stored case through the implementation and the oracle (and the model)."""
    import os, re
    ctx = pv.Ctx("C15", "quick", 1)
    if not ctx.build_harness():
        print("harness does not build:", ctx.broken)
        return 1
    full = path if os.path.isabs(path) else os.path.join(pv.VERIF, path)
    rc, out = ctx.harness(["C15", "--replay", full], timeout=600)
    print(out)
    m = re.search(r"model case file: (\S+)", out)
    if m:
        ctx.make(SPEC["targets"])
        res = ctx.coqc_cases([m.group(1)])
        for f, (rc2, o) in res.items():
            mm = pv.parse_M(o)
            print("model vs implementation:", "agree" if mm == [] else "DISAGREE %s" % (mm,))
    return 0
