import hashlib
import os

import pv
READY = True

SPEC = {
    "targets": ["Properties/C11.vo", "Run/C11.vo"],
    "theorems": {"Properties.C11": ["C11_perm_invariant", "C11_stable_sort_correct", "C11_exit_perm_invariant",
                                    "C11_exit_iff_reaches", "C11_monitors_sound", "C11_is_equal_symmetric_partial",
                                    "C11_is_equal_symmetric_refuted", "C11_perm_invariant_unconditional_refuted",
                                    "C11_is_equal_reads_position", "C11_position_regression",
                                    "C11_protocol_delivers_exactly_once", "C11_protocol_no_deadlock",
                                    "C11_protocol_terminates", "C11_protocol_preserves_job_order", "C11_protocol_nonvacuous", "C11_protocol_matches_source", "C11_runs_agree", "C11_runs_agree_exit", "C11_H2_from_residue", "C11_key_covers_diagnostics", "C11_rule_identity_regression", "C11_later_diagnostics_regression",
                                    "C11_nonvacuous"]},
    "harness_args": lambda tier: ["C11", "--n", 240, "--perms", 12, "--scen", 26, "--bin", 5] if tier == "quick"
                                 else ["C11", "--n", 1500, "--perms", 30, "--scen", 160, "--bin", 40, "--race", 1],
    "search_args": lambda tier: ["C11", "--n", 600, "--perms", 12, "--scen", 40, "--bin", 6],
    "level": "proof",
    "trusted_base": [
        "Coq 8.16.1 kernel + VM (vm_compute); no axioms (Print Assumptions: closed under the global context)",
        "hand-written model Model/SummarySort.v of reporter.go (isEqual, Summary.Report, SortReports, cmpDiagnostics, Dedup, "
        "CountBySeverity), json.go and the header lines of console.go; Common/Sorting.v models go1.24 slices.SortStableFunc "
        "(insertion sort blocks of 20 + symMerge); tied to the current source by differential execution on every run "
        "(real isEqual on all pairs, Reports() after SortReports+Dedup incl. IsDuplicate/Duplicates and diagnostic order, "
        "JSON objects, console header lines, CountBySeverity) over generated streams AND their permutations",
        "harness replica of cmd/pint checkRules/scanWorker job enumeration (config.Load, GlobFinder, GetChecksForEntry, Check) used "
        "to record real streams; validated each run against the real binary's --workers 1 JSON",
        "parser.Rule.IsSame is an equality of projections (kind flags, Error, Lines): rules enter the model as class ids computed "
        "with the real IsSame; Rule.Name() is a separate model field",
        "the model of go1.24 slices.SortStableFunc (insertion-sorted blocks of 20 + symMerge with its binary searches and rotations, written over the "
        "two runs) is proved to return the sorted permutation for any length (C11_stable_sort_correct); that the MODEL equals Go's algorithm is "
        "validated differentially, also on inconsistent comparators and on streams of 21-45 reports",
        "Model/ScanLTS.v: transition system written by hand from the concurrency skeleton of cmd/pint/scan.go (Go channel semantics assumed: "
        "FIFO buffered channels, blocking send/receive, range ends on closed+drained, WaitGroup.Wait returns after all Done); "
        "translator/ext_C11.go re-extracts the skeleton from the AST each run (C11_protocol_matches_source); ctx.Done() cancellation not modelled",
        "Go scheduler / memory model: arrival orders are over-approximated by all paths of the transition system / all permutations; data-race freedom is NOT proved "
        "(both tiers run a -race build of the same tree over generated `bulk` lint scenarios with non-default check settings and generated "
        "`pint ci` git histories with --workers 4/16, the thorough tier over workers x GOMAXPROCS: search, not proof)",
    ],
    "assumptions": [
        "H1 (isEqual symmetric on the stream and implies equality of rendered fields) and H2 (sort key injective on isEqual classes) are "
        "premises of C11_perm_invariant; they are evaluated on every recorded real stream (histogram real:H1=..,H2=..), and every real "
        "stream is additionally replayed under job-order-preserving interleavings through the real Summary and reporters",
        "R-kind and R-nodiag (premises of C11_H2_from_residue) are properties of discovery/checks; not proved, H2 is monitored on every real stream",
        "the reports a job produces depend only on (entry, check, all entries), not on scheduling or on state shared with other workers "
        "(searched by the binary runs with --workers 1..64 and the -race runs; two seeded races of this kind are caught, see notes/C11.md)",
    ],
}

MANIFEST = {
    "text": "Theorems (Coq, no axioms): the channel protocol of checkRules/scanWorker (producer -> jobs channel -> n workers -> results "
            "channel -> main loop, WaitGroup closing results) is a transition system whose every path, for every job list, n >= 1 workers and "
            "capacity >= 1, delivers every report of every job to Summary.Report exactly once (the arrival stream is a permutation, indeed an order-preserving "
            "interleaving, of the per-job lists), cannot get stuck and is finite; its concurrency skeleton is re-extracted from scan.go's AST on every run and "
            "compared (cancellation via ctx.Done() is outside the model); hence any two complete runs with any worker counts/schedules give "
            "the same processed summary, JSON and console output under H1 and H2 (C11_runs_agree). For every report stream s and every permutation s' of it (a superset of all worker interleavings), "
            "under H1 (isEqual symmetric on the stream's elements and implying equality of every rendered field) and H2 (the sort key, 7 scalars + all diagnostics + rule lines/owner/target, "
            "is injective on isEqual classes), Summary.Report + SortReports + Dedup yield the identical list of reports, duplicate "
            "flags and folded duplicates, hence identical JSON and console output (any stream length: the model of Go's stable sort, insertion-sorted blocks merged by symMerge, "
            "is proved to return the unique strictly sorted permutation); the lint/ci exit status is permutation invariant unconditionally; isEqual is symmetric when diagnostics carry "
            "no repeated (columns,message) triple and refuted otherwise; the unconditional statement is refuted at Summary level "
            "(Owner-only difference; asymmetric diagnostics). H2 follows, for every stream, from two named residues (Rule.IsSame reads kind flags and parse Error besides the Lines that are "
            "sort keys; the trailing keys Rule.Lines/Owner/SymlinkTarget are not read for reports without diagnostics), monitored through H2; the sort key "
            "covers all diagnostics and the rule identity (fixes 346020d and bc86063: real H2 failures of promql/aggregate with several labels and of "
            "rule/reject on group-level labels, both fixed scenarios and generated configuration strata now). isEqual reads the "
            "position of every diagnostic (two genuine schedule dependences found with this check were fixed in /repo: 1588b37, d8f60c6; their "
            "witnesses are replayed every run). Partial by nature: data-race freedom and the independence of a job's answer from what other workers do are "
            "a runtime remainder, searched in both tiers by a -race build and by comparing --workers 1 with 2..64 on scenarios in which every check runs many "
            "times concurrently (bulk lint files with non-default check settings, generated `pint ci` histories with removed rules that have dependants). The model is tied to the code on every run by differential execution of the real Summary, "
            "JSON and console reporters on generated streams and their permutations, by evaluating H1/H2 on streams recorded from the real "
            "check pipeline and replaying interleavings through the real code, and by running the real binary with --workers 1/4/16/64.",
    "note": "Coq 8.16.1 kernel+VM, no axioms. Trusted: translator/ext_C11.go (go/ast skeleton extraction, fails closed) and the reading of "
            "the skeleton as the transition system Model/ScanLTS.v (Go channel semantics: FIFO buffers, blocking send/receive, range ends on "
            "closed+drained, WaitGroup); hand model of reporter.go/json.go/console headers and of go1.24 SortStableFunc "
            "(validated differentially, not verified from source); harness replica of checkRules' job enumeration (validated against the binary); "
            "Rule.IsSame treated as class equality; scheduler/memory model outside the model.",
    "technique": "Coq theorem over list/fold model (stable-sort uniqueness under a strict total order) + differential correspondence on permuted streams + H1/H2 monitoring of real streams + binary runs across worker counts + -race build on bulk/ci scenarios (matrix in thorough) + AST-extracted concurrency skeleton",
}


def run(ctx):
    if True:  # both tiers: the -race build is cached by the Go build cache after the first time
        tag = hashlib.md5(pv.SRC.encode()).hexdigest()[:8]
        race = os.path.join(pv.BUILD, "pint-race-%s" % tag)
        rc, out = pv.sh(["go", "build", "-race", "-o", race, "./cmd/pint"], cwd=pv.SRC, env=pv.GOENV, timeout=1200)
        if rc == 0:
            pv.GOENV["PINT_RACE_BIN"] = race
            ctx.log("race build ok")
        else:
            ctx.log("race build failed (support only, ignored): " + out[-500:])
            ctx.notes.append("-race build not available offline: " + out[-300:])
    return pv.standard(ctx, SPEC)
