import pv
READY = True

SPEC = {
    "targets": ["Properties/C13.vo", "Run/C13.vo"],
    "theorems": {"Properties.C13": [
        "C13_slice_range_terminates", "C13_unguarded_slicing_diverges", "C13_query_slices_total",
        "C13_slices_partition_grid", "C13_per_slice_fold_is_runs", "C13_overlaps_aligned",
        "C13_overlaps_not_symmetric", "C13_merge_computes_components", "C13_sliced_eq_unsliced",
        "C13_arrival_order_irrelevant", "C13_series_independent", "C13_sliced_eq_unsliced_all_series", "C13_sliced_eq_unsliced_decoded",
        "C13_nonvacuous", "C13_nonvacuous_multi"]},
    "harness_args": lambda tier: ["C13", "--n", 250 if tier == "quick" else 4000],
    "search_args": lambda tier: ["C13", "--n", 600],
    "level": "proof",
    "trusted_base": [
        "Coq 8.16.1 kernel + VM (vm_compute for the correspondence cases, the non-vacuity example and the asymmetry example); "
        "no axioms (Print Assumptions: closed under the global context for all listed theorems)",
        "hand-written model Model/Range.v (sliceRange, RangeQuery slice bookkeeping after fix 43069bd, AppendSampleToRanges, "
        "ExpandRangesEnd, Overlaps 9 cases, MergeRanges with fuel, stable sort per series, covers/FindGaps) and GoTime.v "
        "(Time.Round relative to year 1, Duration.Round) over Z nanoseconds; int64 saturation of time.Time/Duration arithmetic is "
        "outside the model",
        "correspondence: the real sliceRange and streamSampleStream (overlay exports), AppendSampleToRanges, ExpandRangesEnd, Overlaps, MergeRanges, FindGaps "
        "and the function-level pipeline are run on generated inputs (incl. adversarial non-pipeline ranges, hole families, "
        "ns offsets around every threshold) and compared with the model by coqc; the real Prometheus.RangeQuery runs end to end "
        "against an in-process fake server (presence model, random per-slice delays) and its requests/results are compared "
        "with query_slices and with the reference runs",
        "harness: generators (incl. a 12-label-set series vocabulary with nested / overlapping / disjoint / empty label-name sets, "
        "series present during whole slices only, minimal two-slice configurations), the fake server (query_range over a presence "
        "model with Prometheus' millisecond parsing, series order permuted per response), the reference runs in Go, the label / "
        "fingerprint / step checks of the oracle, the watchdog that turns a non-terminating slicing loop into a reported input",
        "Model/RangeStream.v (reused decoder variable, json.Unmarshal-into-map semantics, reset) is hand-written; it is tied by a "
        "function-level correspondence of streamSampleStream (overlay export) on generated response bodies and end to end (the decoded "
        "labels of every result range are compared with the served label sets); labels.Hash enters the case files as a finite table",
        "server model: a Prometheus-compatible server answers query_range(start,end,step) with the samples at start+k*step <= end",
        "only tested, not proved: the query cache.  The end-to-end client is a real FailoverGroup (shared cache); every query is asked "
        "2-3 times and followed by later queries differing in one parameter (step, end, end by less than a step, start, expression), "
        "each compared with its own unsliced reference; results handed to callers are compared with a snapshot at the end",
    ],
    "assumptions": [
        "step >= 1s and step <= maxInt64-2h (pint parses lookbackStep/step with model.ParseDuration; smaller steps are outside the theorem)",
        "Fingerprint (labels.Hash) identifies a series: distinct series have distinct fingerprints (premise NoDup of "
        "C13_series_independent / C13_sliced_eq_unsliced_all_series / C13_sliced_eq_unsliced_decoded; the harness checks it for its "
        "vocabulary)",
        "the wire format (formatTime prints float64 seconds, the server keeps milliseconds) is identity on the instants the theorem "
        "speaks about; the harness generates start/step on whole milliseconds and keeps `end` 0.1ms away from half-milliseconds",
    ],
}


def run(ctx):
    return pv.standard(ctx, SPEC)


MANIFEST = {
    "text": "Theorems (Coq, no axioms), over Z nanoseconds, for ALL start/end/lookback, all steps >= 1s (dividing 2h or not), all "
            "presence patterns and ALL arrival orders of the slice responses: C13_sliced_eq_unsliced - per-slice folding "
            "(AppendSampleToRanges, ExpandRangesEnd), concatenation in any permutation, MergeRanges (fuelled fixpoint, all 9 Overlaps "
            "cases) and the final sort yield exactly the maximal runs of present points of ONE unsliced evaluation on the same step "
            "grid (so runs merge across slice boundaries, one missing sample is a gap, order is irrelevant); "
            "C13_sliced_eq_unsliced_all_series states it for ANY FINITE SET of series with distinct fingerprints, every response listing "
            "its series in an order of its own: one result whose part under each fingerprint is exactly that series' unsliced runs and "
            "which contains nothing else; C13_sliced_eq_unsliced_decoded starts from the streaming decoder (one reused variable, reset "
            "after every element; hash only assumed injective on the served label sets); C13_slices_partition_grid - the slices' grids are disjoint, on one step grid, and cover "
            "[first slice start, end]; C13_slice_range_terminates / C13_unguarded_slicing_diverges / C13_query_slices_total - "
            "sliceRange terminates iff the slice size is positive (step > 4h made it loop forever before fix 43069bd) and the "
            "guarded RangeQuery bookkeeping is total; the supporting links (per-slice fold = runs, Overlaps on aligned ranges = "
            "touching except two asymmetric holes, MergeRanges on a staircase computes connected components) are exposed as "
            "theorems too. The model is tied to the current source on every run by differential execution of the real functions "
            "(function-level and the real Prometheus.RangeQuery end to end against a fake server) evaluated against the model by coqc, "
            "plus an implementation-level oracle (result == unsliced reference for the query, its repetitions and later queries on the "
            "same caching client that differ in one parameter; results never mutated after being returned; termination watchdog).",
    "note": "Coq 8.16.1 kernel+VM, no axioms. Hand-written Z-nanosecond model validated by correspondence, not derived from Go source; "
            "int64 saturation, HTTP/JSON stack and the float64 wire format are outside the model (harness keeps them exact); "
            "labels.Hash injectivity assumed; server sampling semantics (start+k*step) assumed.",
    "technique": "Coq theorem over Z-interval model (index-level staircase invariant for MergeRanges) + differential correspondence + fake-server end-to-end oracle",
}
