import pv
READY = True

SPEC = {
    "targets": ["Properties/C06.vo", "Run/C06.vo"],
    "theorems": {"Properties.C06": [
        "C06_positions_spell_prefix", "C06_positions_in_step",
        "C06_spell_guarded_partial", "C06_spell_plain", "C06_spell_single_quoted", "C06_spell_double_noescape", "C06_spell_double_selfescape",
        "C06_spell_literal", "C06_spell_folded_noblank", "C06_spell_folded_blank_lines", "C06_spell_plain_multiline", "C06_spell_flow_multiline",
        "C06_read_range_lands", "C06_positions_nonempty_inside", "C06_rule_lines_enclose", "C06_rule_lines_inside_file", "C06_lines_of_encloses",
        "C06_shift_equivariance", "C06_carets_exact", "C06_carets_single_range", "C06_carets_any_line_ascii", "C06_carets_after_non_ascii", "C06_caret_split_range_fixed", "C06_plain_end_to_end",
        "C06_refuted_dq_escape", "C06_dq_escapes_in_sync", "C06_full_statement_refuted",
        "C06_folded_blank_fixed", "C06_block_header_fixed", "C06_shallow_indent_fixed", "C06_continued_trailing_space_fixed",
        "C06_block_leading_blank_fixed", "C06_multibyte_prefix_fixed", "C06_anchor_prefix_fixed",
        "C06_nonvacuous", "C06_nonvacuous_blocks", "C06_nonvacuous_folded_paragraphs", "C06_nonvacuous_double_selfescape"]},
    # quick: 200 printed documents (+100 synthetic line-table groups) through the correspondence and the oracle;
    # thorough: 4000 documents with correspondence + 40000 more through the oracle only
    "harness_args": lambda tier: ["C06", "--n", 200] if tier == "quick" else ["C06", "--n", 4000, "--extra", 40000],
    # search mode (something broke, no failing input yet): oracle only, no case files
    "search_args": lambda tier: ["C06", "--n", 4000, "--no-cases"],
    "level": "proof",
    "trusted_base": [
        "Coq 8.16.1 kernel + VM (vm_compute: the _refuted witnesses, the non-vacuity examples, the correspondence evaluation); "
        "no axioms (Print Assumptions of all 38 theorems: closed under the global context)",
        "hand-written Gallina model Model/Position.v of internal/diags/position.go (NewPositionRange, appendPosition, countLeadingSpace, "
        "byteColumn, skipBlanks, readRange, AddOffset, Lines, Len; Go's UTF-8 rune iteration is Model/CommentsUnicode.v decode_all) and of the lines accumulation of parseRule / YamlMap.Lines; tied to the current source on every run "
        "by differential execution only (no translator tables): the harness is compiled into the repo module and runs the REAL "
        "diags.NewPositionRange / readRange / PositionRanges.Lines on synthetic line tables and nodes (incl. out-of-range lines/columns, "
        "where the Go code panics and the model must say Crash) and on every yaml.v3 scalar node of generated documents, and the REAL parser "
        "on generated documents: every YamlNode.Pos, Rule.Lines, YamlMap.Lines is recomputed by the model from (line table, yaml node, "
        "minColumn, offsets) and compared by coqc",
        "Model/Layout.v: the formal reading of 'spell' (spells / spell_match: read-back equals the value minus trailing line breaks, a file "
        "line break may stand for a folded ' ' or a '\\n'), the executable guard node_ok and the layout relations (Lay1, block_layout, "
        "plain_ml_layout) are definitions, i.e. part of what the theorems SAY",
        "harness (Go): the printing generator gen.go (trusted to know where it put each value and which known-finding layout classes a "
        "scalar is in; its class predicates are cross-checked against the Coq guard node_ok on every generated field that it claims to be "
        "outside all classes), the serialisation of cases into Coq terms, the replication of which yaml nodes/minColumn/offsets the parser "
        "passes to newYamlNode (walk of the yaml forest incl. YAML embedded in a block scalar)",
        "modelled not verified: yaml.v3 (node line/column/value are inputs), PromQL parser and the offline checks (their Diagnostics are "
        "inputs to the oracle), InjectDiagnostics: its readRange(min(first,Len),min(last,Len)) call and its caret line (caret_marks_line: one mark per character of the source line, any bytes) are modelled and compared with the real output, the rest of the rendering is not",
    ],
    "assumptions": [
        "line tables contain no '\\n' byte inside a line (true of ContentReader.lines by construction; premise of the block theorems for the "
        "lines after the scalar)",
        "the layout theorems C06_spell_* are stated for scalars preceded by ASCII text on their line (character column = byte column; "
        "lemma byte_column_ascii); a non-ASCII prefix goes through the modelled byteColumn conversion, which is covered by the "
        "correspondence, the oracle and the example C06_multibyte_prefix_fixed only; C06_positions_spell_prefix and "
        "C06_spell_guarded_partial hold for any prefix",
        "oracle reading for YAML embedded in a block scalar: the line break of a blank (de-indented) outer line, or the \\r of a CRLF pair, "
        "counts as that line's break (documented in notes/C06.md)",
    ],
}

MANIFEST = {
    "text": "Coq theorems (no axioms) about a byte-exact executable model of internal/diags/position.go as of fix commits 660d1e1, "
            "6c7f5de, 9af0d98, 69b377d, d1959ae and the dq-escape fix: (0) UNCONDITIONALLY, for every line table, node (value, line, "
            "character column, block style bit, anchor) that is not double quoted, and minColumn, a call that returns gives either the one-column fallback or positions that are well "
            "formed, inside the file and read back, in order and up to line folding, a PREFIX of the value (C06_positions_spell_prefix; "
            "induction over the greedy matcher: scan_line over bytes, npr_loop over lines with the lineBreak flag); for EVERY node, "
            "double-quoted with arbitrary escape sequences included, the positions are in step with the value: their number equals "
            "the length of the located prefix, so diagnostic offsets are never shifted (C06_positions_in_step); (1) under the "
            "executable completeness guard node_ok (every line's scan finds its segment; value not made of line breaks only) the call "
            "does not panic and the positions are non-empty and spell the WHOLE value; the layout relations of plain, single-quoted, "
            "double-quoted with simple escapes, literal blocks (any header line, any chomping, comments, blank and more-indented lines, "
            "explicit indentation), folded blocks with and without blank lines between paragraphs, multi-line plain and multi-line quoted scalars are proved to imply "
            "the guard; (2) read_range_lands: if positions spell the value, the ranges InjectDiagnostics computes for a diagnostic's "
            "[first,last] read back exactly value[first-1:last]; carets of the rendered diagnostic sit exactly under those columns; "
            "(3) unconditionally positions are non-empty, well-formed, on lines >= the node's line; rule line ranges enclose all "
            "parts/fields and stay inside any bound on them; (4) shift-equivariance under inserted lines / a common ASCII prefix; (5) the "
            "full statement is machine-refuted (vm_compute witness, same input in corpus/C06 re-run on the real parser) for ONE remaining "
            "layout class registered as known finding (value bytes hidden behind an escape sequence of a double-quoted scalar: since the "
            "dq-escape fix the scanner decodes escape sequences token by token — modelled byte-exactly incl. unescape — and stays in "
            "sync, but such a byte has no byte of its own in the file, so read back literally its position spells the escape's text; "
            "the oracle checks everything under the 'modulo escapes' reading and excuses only the literal reading of those bytes); "
            "double-quoted scalars without escape sequences are inside the guarded theorem (lemma scan_line_dq_plain), one-line ones "
            "with the self-escapes \\\" and \\\\ have their own theorem (C06_spell_double_selfescape: induction over the token scanner), "
            "multi-line ones with self-escapes are covered by correspondence and oracle only; the witnesses of the "
            "seven classes repaired by the five fix commits are positive vm_compute statements now (C06_*_fixed) and regression inputs "
            "of the oracle. Tie: differential execution of the real NewPositionRange/readRange/Lines and of the real parser (all "
            "YamlNode.Pos, Rule.Lines, YamlMap.Lines) against the model; oracle: a printing generator that knows where it put each value "
            "(all scalar styles, indentations incl. 1-column, flow mappings, comments also on block headers, blank lines inside folded and "
            "multi-line scalars, trailing blanks, anchors, non-ASCII text, nested/relaxed/embedded layouts, CRLF) compares read-back text "
            "and region, and every Diagnostic of the offline checks with the substring it must cover.",
    "note": "Trusted: Coq kernel+VM; hand model validated by differential execution on every run (no translator for this property); the "
            "generator's knowledge of where it printed values and its independent escape decoder (YAML 1.2 5.7) for the 'modulo escapes' "
            "reading; yaml.v3, PromQL parser, offline checks as inputs. Known finding (1 class: the literal reading of value bytes "
            "hidden behind a double-quoted escape sequence) cannot be repaired (no byte in the file); everything else about such "
            "scalars (every other byte, regions, rule line ranges, diagnostics, carets) is checked exactly.",
    "technique": "Coq proof by induction over the greedy matcher + vm_compute refutation/regressions + differential correspondence of the "
                 "real functions and parser + printing-generator oracle",
}


def run(ctx):
    # pv.standard runs coqchk over the closure in the thorough tier
    return pv.standard(ctx, SPEC)


def replay(path):
    """bin/check C06 --replay replays/C06/violation_k.json : re-run the stored document through the real parser
    (built from the current tree) and print, per field, value / positions / read-back / spells."""
    import json
    import os
    with open(path if os.path.isabs(path) else os.path.join(pv.VERIF, path)) as f:
        d = json.load(f)
    print("what:", d.get("what"))
    case = d.get("case") or {}
    text = case.get("text") if isinstance(case, dict) else None
    if text is None:
        print(json.dumps(d, indent=1)[:20000])
        return 0
    ctx = pv.Ctx("C06", "quick", int(d.get("seed") or 1))
    if not ctx.build_harness():
        print("harness does not build:", ctx.broken)
        return 1
    fn = os.path.join(ctx.work, "replay.yml")
    with open(fn, "w", newline="") as f:
        f.write(text)
    print("---- document ----")
    print(text)
    print("---- real parser (pint-verif-C06 C06probe) ----")
    args = [ctx.pv, "C06probe"] + (["--strict"] if case.get("strict") else []) + [fn]
    rc, out = pv.sh(args, cwd=ctx.work, env=pv.GOENV, timeout=120)
    print(out)
    return 0
