import pv
READY = True

SPEC = {
    "targets": ["Properties/C17.vo", "Run/C17.vo"],
    "theorems": {"Properties.C17": ["C17_covered_or_deferred", "C17_no_duplicate_creation", "C17_stale_removed", "C17_idempotent",
                                    "C17_converges", "C17_todo_nil_spec", "C17_grouping", "C17_comment_line", "C17_gitlab_L1", "C17_github_L1",
                                    "C17_platform_L2", "C17_gitlab_idempotent", "C17_github_idempotent", "C17_platforms_converge",
                                    "C17_server_platforms_L1", "C17_foreign_untouched", "C17_server_platforms_converge",
                                    "C17_bitbucket_reconcile", "C17_bitbucket_deviations_refuted",
                                    "C17_gitlab_prefix_L1_refuted", "C17_counting_skips_starves_refuted", "C17_nonvacuous"]},
    "harness_args": lambda tier: ["C17", "--n", 240, "--diffs", 90, "--servers", 26, "--bitbucket", 48] if tier == "quick"
                                 else ["C17", "--n", 2500, "--diffs", 1000, "--servers", 250, "--bitbucket", 500],
    # used three times (three extra seeds) when an obligation broke without an oracle failure: keep it at quick-tier size
    "search_args": lambda tier: ["C17", "--n", 300, "--diffs", 80, "--servers", 40, "--bitbucket", 60],
    "level": "proof",
    "trusted_base": [
        "Coq 8.16.1 kernel + VM (vm_compute); no axioms (Print Assumptions: closed under the global context)",
        "hand-written models Model/CommentsReconcile.v (dedupReports, makeComments' grouping and line choice, updateDestination as step over an "
        "abstract platform) and Model/Platforms.v (parseDiffLines incl. bufio line splitting and the hunk regexp, diffLineFor, GitHub "
        "fixCommentLine/IsEqual/Create skips, GitLab reportToGitLabDiscussion/List rule/IsEqual); tied to the current source on every run by "
        "differential execution: the REAL Submit against a stateful in-memory Commenter (pending comments, Create/Delete logs, store per round) "
        "and the real helper functions on generated unified diffs (overlay export file, no change to /repo)",
        "the markdown text of a comment is not modelled: texts enter the model as ids of their newline-trimmed value (the harness checks that a "
        "comment's text contains the summary and details of every report it stands for)",
        "platform servers echo what they are sent (position, line, body): assumed by Model/Platforms.v; the real GithubReporter/GitLabReporter are "
        "additionally driven through Submit against in-process fake APIs with exactly that behaviour (oracle only)",
        "harness: generators, in-memory Commenter, fake GitHub/GitLab HTTP APIs, canonicalisation of texts to ids",
    ],
    "assumptions": [
        "API calls succeed (Create/Delete/List errors abort the run and are outside the model)",
        "List returns ALL comments of the pull/merge request (true of the GitLab and BitBucket reporters, and, since fix 07993f0, of the GitHub reporter; checked against paginating fakes)",
        "law L1 is a premise of the generic theorems; it is proved for the GitLab model (lines >= 1, non-empty paths) and the GitHub model, "
        "and checked on the real functions for every generated (diff, pending comment)",
    ],
}

MANIFEST = {
    "text": "Theorems (Coq, no axioms), for every comment store, pending list and platform {is_equal, can_create, can_delete, create} satisfying law L1 "
            "(what Create stores is IsEqual to the pending comment): after a run every pending comment is IsEqual to a stored comment, or was refused by the "
            "budget, or cannot be placed by the platform (Create = errCommentSkipped, nothing stored, NOT counted against the budget since fix 15e1a20); at most "
            "maxComments comments are placed; nothing IsEqual to a pre-existing comment is created; exactly the deletable comments equal to no pending one are "
            "deleted, all others untouched; a run that defers no placeable comment is a fixpoint (stores nothing, deletes nothing, store unchanged) - no "
            "'nothing skipped' premise; with budget m, run ceil(n/m) defers nothing placeable and leaves nothing to do, n = uncovered placeable comments - no "
            "'path not in the PR diff' exception; the pre-fix accounting is proved to starve (refutation). dedupReports yields exactly one group per (severity, "
            "reporter, path, lines, anchor) carrying every considered report's text; the comment line is the last modified line inside the problem's lines else "
            "its last line. L1 (and L2) are proved for the GitLab model (after fix 38f6be7; refuted for the pre-fix variant) and the GitHub model, also over the "
            "SERVER's state with List's filters (system / other author / general notes, comments without a path): what List does not show is never recognised "
            "nor deleted; both platforms converge and reach a fixpoint. Tie: every run drives the REAL reporter.Submit over multi-round scenarios against a "
            "stateful in-memory Commenter (which signals unplaceable comments with whatever the real platform code returns) and compares pending comments, "
            "create/delete logs and stores per round with the model; parseDiffLines/diffLineFor/fixCommentLine/reportToGitLabDiscussion/IsEqual are compared on "
            "generated unified diffs; the real GitHub/GitLab reporters run against fake APIs and everything the server holds is compared per round with the "
            "model (incl. GitLab's deduplicated 'too many comments' note). BitBucket's separate reconciliation (limit/prune/add, anchor computation) is "
            "modelled, proved idempotent/covering/duplicate-free under echo and without COMMIT-anchored comments, its two deviations from C17's shape are "
            "proved as refutations, and the real functions are compared with the model over multi-round runs against a fake comments API. IsEqual of both platforms is additionally asked about comments that differ from the one Create would post in exactly one field "
            "(no line at all = outdated, neighbouring lines, path, text), and the fake GitHub API serves outdated comments and a push history. The fake APIs paginate (GitLab X-* headers in every legal combination, GitHub Link header, BitBucket paged activities) and list PR files with, without a "
            "patch and outside the PR. (GithubReporter used to read only the first page: found here, fixed by 07993f0; long review histories go through the model like every other scenario)."
            " ONLY TESTED (oracle, not proved): the clauses on the real rounds, L1 on the real "
            "functions, GitHub's Summary/general comments (known finding: the general comment is repeated on every run).",
    "note": "Coq 8.16.1 kernel+VM, no axioms. Trusted: hand models (validated differentially each run, not verified from source); comment text not modelled "
            "in the in-memory rounds (ids of trimmed text); servers assumed to echo positions; API errors other than the skip signal outside the model; harness fakes.",
    "technique": "Coq theorems over an abstract reconcile step + platform instances (helper level and server-state level); differential correspondence through the real Submit with a stateful store; law checks on real platform functions; fake-API multi-round runs of the real reporters compared with the model",
}


def run(ctx):
    return pv.standard(ctx, SPEC)
