import pv
READY = True

SPEC = {
    "targets": ["Properties/C19.vo", "Run/C19.vo"],
    "theorems": {"Properties.C19": [
        "C19_relaxed_eq_strict", "C19_shape_check_sound", "C19_relaxed_eq_strict_partial", "C19_strict_valid_single_doc",
        "C19_null_tag_on_mapping_now_rejected", "C19_seq_tag_on_mapping_now_rejected", "C19_alias_key_now_rejected",
        "C19_relaxed_total", "C19_descent_bounded", "C19_wrapper_invariance", "C19_wrapper_invariance_file",
        "C19_seq_parent_irrelevant", "C19_nonvacuous", "C19_nonvacuous_embedded"]},
    "harness_args": lambda tier: ["C19", "--n", 500 if tier == "quick" else 12000],
    "search_args": lambda tier: ["C19", "--n", 1000],
    "level": "proof",
    "trusted_base": [
        "Coq 8.16.1 kernel + VM (vm_compute for the refutation witnesses, the non-vacuity example and correspondence); "
        "no axioms (Print Assumptions: closed under the global context)",
        "hand-written Gallina model of internal/parser/{parser,strict,models}.go over the yaml.v3 node forest (Model/Yaml.v, Model/Parser.v); "
        "tied on every run by forest-level correspondence: the harness (compiled into the repo module) replays Parser.Parse's own decoding "
        "loop (same masking reader, same yaml.v3 decoder), serialises the real yaml.Node forest and the real parser.File of both modes, "
        "coqc evaluates the model on the same forest and compares groups/rules/labels/line extents/error lines",
        "external library behaviour enters the theorems as Section variables with NO assumed behaviour: NewPositionRange(...).Lines() "
        "(plines), IsValidMetricName, LabelName.IsValid, LabelValue.IsValid, ParseDuration; in the correspondence runs they are instantiated "
        "by Model/YamlPosLines.v (line extent of NewPositionRange, re-modelled) and by per-scalar answer bits obtained from the real library",
        "harness: forest/File serialiser, document / wrapper / embedding generators, no known-finding class predicate left",
        "yaml.v3 itself is an input (the forest), never modelled; theorems quantify over all forests, a superset of what yaml.v3 can return",
        "not modelled: rule comments, column offsets/positions (C06), Interval/QueryOffset/Limit values, PromQL AST; error messages are not compared",
    ],
    "assumptions": [
        "the un-shifting of lines/columns for wrapped documents (`displaced exactly by the wrapper`) is checked by the implementation-level "
        "oracle on generated wrappers, not proved: the wrapper theorem is stated on the coordinates yaml.v3 reports inside the wrapped document",
        "partial theorem guard wf_doc: document node is a document, roots are not aliases, alias fields only on alias nodes (true of every "
        "yaml.v3 forest) and no explicit tag contradicting the node kind (enforced by strict mode itself since b22de24 + 4a0d172)",
    ],
}


def run(ctx):
    return pv.standard(ctx, SPEC)

MANIFEST = {
    "text": "Theorems (Coq, no axioms, generic in every external oracle) about an executable Gallina model of pint's parser over the "
            "yaml.v3 node forest: (1) relaxed = strict on EVERY strict-valid document (same rules: kind, name, expr, fields, line ranges, in "
            "order) - the full statement is proved; its only premises are structural facts of yaml.v3 forests (decidable, proved-sound check "
            "shaped_b evaluated on every correspondence case) and one fact about the null-decoding oracle; the two classes of counterexamples to the unguarded statement that the proof attempt found (alias "
            "used as mapping key; explicit tag contradicting the node kind) were repaired in pint (3dfcdb6, b22de24 + 4a0d172) and are now "
            "regression theorems, and the former guard on tags is now DERIVED from strict validity; (2) the relaxed descent terminates on every forest (fuel = height always "
            "suffices); (3) wrapper invariance for ALL forests and all wrappers made of mapping levels, sequence levels, document/alias levels, "
            "YAML-in-YAML levels (literal block scalars pint re-parses, e.g. a ConfigMap), sibling keys/items and extra documents: the rules found "
            "in the wrapped node are exactly the rules found in the hole; the key above a rule list is irrelevant unless it is `groups`. Tie: "
            "forest-level correspondence of the real parser in both modes vs the model on the serialised real forest (generated strict-valid "
            "files, wrappers 0-4 levels, embedded documents, field-level defects, byte/line mutations) + implementation-level oracles (strict vs "
            "relaxed on every strict-valid document; wrapped vs bare rule list after un-shifting lines, columns and positions, incl. direct rules "
            "of mixed sequences; embedded document vs the scalar's value parsed on its own; non-literal scalars must not be looked into).",
    "note": "Coq 8.16.1 kernel+VM; no axioms; model hand-written and validated by differential execution (not verified from Go source); "
            "yaml.v3, NewPositionRange, Prometheus name/duration validators are inputs/oracles; line/column displacement of wrapped rules "
            "checked by the oracle, not proved; no open known finding (C19-tag-kind and C19-embedded-dup-key-line, both found here, are fixed "
            "upstream: any strict-valid/relaxed or wrapped/bare difference is a violation).",
    "technique": "Coq theorems (induction over forests/wrapper contexts, fuel monotonicity and totality) over a Gallina parser model + "
                 "forest-level differential correspondence + wrapper/embedded/strict-vs-relaxed implementation oracles",
}
