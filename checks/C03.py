import pv
READY = True

SPEC = {
    "targets": ["Properties/C03.vo", "Run/C03.vo"],
    "theorems": {"Properties.C03": [
        "C03_changes_track_renames", "C03_rename_onto_deleted_path_tracked", "C03_copy_entry_keeps_source_record", "C03_copy_entry_leaves_source_alone", "C03_changes_bodies_fork_and_head", "C03_compared_versions_are_fork_and_head", "C03_changes_have_commits", "C03_git_tables",
        "C03_unquote_inverts_git_quoting", "C03_match_sound", "C03_added_only_if_ambiguous", "C03_disables_order_irrelevant", "C03_state_sound", "C03_state_tables",
        "C03_changed_never_skipped", "C03_untouched_noop", "C03_untouched_moved", "C03_merge_sound", "C03_untouched_final_noop", "C03_final_state_origin", "C03_changed_final_never_skipped", "C03_history_untouched_noop", "C03_history_changed_never_skipped", "C03_classify_unfold", "C03_nonvacuous", "C03_faithful_nonvacuous"]},
    "harness_args": lambda tier: ["C03", "--n", 240 if tier == "quick" else 3000,
                                  "--histories", 220 if tier == "quick" else 2500,
                                  "--inproc", 60 if tier == "quick" else 300],
    "search_args": lambda tier: ["C03", "--n", 300, "--histories", 400, "--inproc", 40],
    "level": "proof",
    "trusted_base": [
        "Coq 8.16.1 kernel + VM (vm_compute for the table theorem, the tracked-witness example, the 256-case byte lemma of the unquoting proof and "
        "the correspondence evaluation); no axioms (Print Assumptions: closed under the global context)",
        "translator (/verif/translator, go/ast): ChangeType iota block, CIStates, stateMatches switch -> Gen/Tables.v (C03_state_tables); "
        "ext_C03: FileStatus rune constants, the `switch change.Status` case lists of git.Changes, PathType iota block, the `git log` argument "
        "vector -> Gen/C03.v (C03_git_tables); fails closed on shapes it does not recognise",
        "L1 correspondence: real matchEntries (overlay export) on entry lists parsed by the real parser from generated before/after files "
        "vs Model/GitBranch.match_entries; content ids = classes of the real Rule.IsIdentical (checked to be an equivalence on every case)",
        "L2 correspondence: real git.Changes run in-process on scratch repositories with a recording git runner vs Model/GitChanges on the "
        "captured `git log --name-status` text, ls-tree/cat-file/blame answers",
        "L3 correspondence: real GlobFinder + GitBranchFinder.Find in-process vs Model/GitBranch.find on the parsed bodies of the real change list; "
        "L4: the same real Find vs the composed model Model/GitBranch.classify on (log text, git answers, parser table, glob list); "
        "and the `pint ci` binary with one marker block per state vs the generator's own rule-level truth (implementation-level oracle)",
        "modelled not verified: Go source of changes.go / git_branch.go is hand-modelled; git, the yaml parser, readRules, Rule.IsIdentical/IsSame, "
        "blame parsing, the config/check routing that turns a state into a marker report are inputs or exercised end to end only",
    ],
    "assumptions": [
        "rules are abstracted to (kind, name, content id, lines, rule-error flag); Rule.IsIdentical is an equivalence (tested per case)",
        "log_faithful (named hypothesis of C03_changes_bodies_fork_and_head, C03_compared_versions_are_fork_and_head, C03_history_untouched_noop): "
        "the log is ordered by commit, A/D/M/T/R entries relate the snapshots before/after their commit as documented (a rename's destination is "
        "absent before), every path whose blob differs is listed, each path once per commit (no shared destination), and ls-tree/cat-file answer "
        "from those snapshots; tested on every in-process history against `git ls-tree -r` of each commit (histogram keys hyp:*)",
        "parser hypotheses of C03_history_untouched_noop: readRules labels every entry with the path name it was given and finds no rules in an "
        "absent body (by construction of readRules; not separately tested)",
        "symlinks, the maxCommits limit and [skip ci] commit messages are outside the modelled fragment (generator creates none)",
        "base of the comparison = the fork point (merge base): `pint ci` reads base..HEAD; commits on the base branch after the fork are ignored",
    ],
}


def run(ctx):
    return pv.standard(ctx, SPEC)

MANIFEST = {
    "text": "Theorems (Coq, no axioms) about executable models of internal/git/changes.go and internal/discovery/git_branch.go as they are now "
            "(after fixes a826206, 4412e3a, 4dd7734, d9e7954, e81cbba): for ALL logs, with no guard, the change list built by the fold over `git log "
            "--name-status` entries is exactly the list of lineage chains of a depth-indexed specification (k-th most recent file at a path followed "
            "backwards: origin, commits, status); under the named hypothesis log_faithful every record's Body.Before is the origin's content at the "
            "fork point and Body.After the content at HEAD (a shadowed record is always a deletion), so matchEntries compares the fork version with "
            "the HEAD version; path unquoting inverts git's quoting for every byte string; for ALL before/after entry lists matchEntries pairs every "
            "HEAD rule once, injectively, identical pairs first; Noop implies identical content, same path and same disabled checks; a rule whose "
            "content differs from every base rule is never Noop and always in a state selected by CIStates (tables regenerated from the Go AST); "
            "unmatched base rules are Removed; the merge keeps entries of untouched files unchanged and a glob entry only takes its state from a "
            "branch entry at its path and position; both directions at full strength, end to end over Find and for ANY faithful history: a HEAD rule "
            "that is untouched relative to the fork-point version of the file it descends from (enough identical base copies, same path, same set of "
            "disabled checks) is Noop in the list `pint ci` lints, and a HEAD rule whose content differs from every rule of that base version is "
            "Added/Modified/Moved there (never Noop; the merge loop cannot lose the state); the FileStatus runes, the status switch of git.Changes, "
            "the PathType order and the `git log` arguments are regenerated from the Go AST every run. No open known finding (the copy-entry defect found in round 4 -- with copy detection configured a copy entry made git.Changes drop the "
            "source file's record -- was fixed by e81cbba; regression theorems and corpus witness kept). "
            "Tied to the code every run by four differential layers (real matchEntries; real git.Changes on scratch repositories; real "
            "GlobFinder+Find; the composed model classify against the real Find from raw git output) and by `pint ci` with per-state marker blocks "
            "on generated histories (add/modify/delete/rename file, rule edits incl. single map entries and trailing lines, cosmetic edits, reorders, "
            "file/disable edits, reverts, base advancing, quoted/non-ASCII paths, renames onto deleted paths) against the generator's own truth. "
            "Only tested, not proved: the models' faithfulness to the Go source, log_faithful for real git, Removed end to end (C20).",
    "note": "Coq 8.16.1 kernel+VM, no axioms; hand-written models validated by differential execution, not derived from Go source; git, yaml "
            "parser, IsIdentical/IsSame, config routing are inputs or covered end to end only; symlinks, group-level edits, maxCommits and "
            "[skip ci] out of scope; body/history theorems under the named, tested hypothesis log_faithful.",
    "technique": "Coq induction over logs/entry lists (refinement to a depth-indexed lineage spec, permutation/counting invariants, merge "
                 "invariants) + AST-generated state tables + four-layer differential correspondence + scratch-git end-to-end oracle",
}
