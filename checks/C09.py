import pv
READY = True

SPEC = {
    "targets": ["Properties/C09.vo", "Run/C09.vo"],
    "theorems": {"Properties.C09": [
        "C09_is_match_eq_doc", "C09_is_match_eq_doc_selects", "C09_block_is_conjunction", "C09_state_default",
        "C09_removed_default_unobservable", "C09_labels_see_group_labels", "C09_labels_are_doc_labels",
        "C09_group_labels_untouched", "C09_group_labels_untouched_prefix_refuted", "C09_group_labels_untouched_prefix_partial", "C09_duration_ops", "C09_nonvacuous",
        "C09_command_condition", "C09_path_name_conditions", "C09_kind_condition", "C09_state_condition", "C09_annotation_condition",
        "C09_label_condition", "C09_duration_conditions", "C09_duration_parse_error_quirk", "C09_conditions_nonvacuous"]},
    "harness_args": lambda tier: ["C09", "--n", 40 if tier == "quick" else 1000],
    "search_args": lambda tier: ["C09", "--n", 200],
    "level": "proof",
    "trusted_base": [
        "Coq 8.16.1 kernel + VM; no axioms",
        "translator: stateMatches switch table, CIStates, AnyStates, check type States -> Gen/Tables.v",
        "correspondence: real config.Load (HCL decoding of match/ignore blocks), real finder, real isMatch / defaultRuleMatch / Entry.Labels / "
        "parseDurationMatch / matchRegex (overlay build of the current tree) vs Model/Match.v",
        "oracles (universally quantified in the theorems, tabulated per case by the harness): Go regexp on \"^(?:p)$\" compiled independently of "
        "pint's matchRegex, prometheus model.ParseDuration",
        "binary oracle: per-block marker checks (label \"marker_k\" {required=true}) in pint lint / pint ci runs (added / modified / unmodified files) vs a Go reference "
        "evaluator of docs/configuration.md; every second scenario is FOCUSED: each rule block tests one condition kind (rotating over the nine, in match and ignore role, "
        "sometimes with a second condition or an explicit state) on files where every rule sees >= 2 group labels, >= 2 own labels, >= 2 annotations; "
        "key/value patterns include ones matching several names and proper substrings; duration conditions use every operator against the durations the rules use; "
        "rule for/keep_firing_for values that are not durations occur; a later block may carry the IDENTICAL marker check of an earlier block "
        "(expected: reported iff any block of the group applies); measured per-condition verdict histogram in the evidence",
        "PRule cases: the match/ignore lists stored by parseRule/newParsedRule (real code) = (ignore as decoded, default_rule_match of match) for ci / lint / no command",
    ],
    "assumptions": [
        "wf_labels: label maps have unique keys (YAML mappings; the strict parser rejects duplicates)",
        "documented default state list for pint ci is added/modified/renamed; the code also lists removed — proved unobservable for configured checks (C09_removed_default_unobservable)",
        "a rule for/keep_firing_for value that is not a duration satisfies a duration condition, and an unparsable keep_firing_for condition "
        "(not validated at load) reads as '= 0' — both are explicit clauses of the spec doc_duration",
    ],
}


def run(ctx):
    return pv.standard(ctx, SPEC)


MANIFEST = {
    "text": "Theorems (Coq, no axioms, for every behaviour of the regexp and duration libraries): the model of Match.IsMatch (nine conditions in "
            "code order), isMatch (ignore dominates, any match), defaultRuleMatch/defaultMatchStates, stateMatches (generated table), "
            "durationMatch and Entry.Labels equals the documented meaning doc_applies written from docs/configuration.md; state defaults; "
            "label conditions see group labels; six duration operators = Z order. Each condition ON ITS OWN (a block setting only that condition): command iff the command "
            "is the running one; path/name iff the whole string matches; kind selects exactly the alerting / recording rules; state words mean the ChangeType constants; "
            "annotation iff alerting rule with an annotation pair matching key and value; label iff some effective (group + own) label pair matches; for/keep_firing_for iff "
            "alerting rule with the field whose duration compares as the operator says. The parse-error clauses are stated explicitly: a rule value that is not a duration "
            "satisfies every duration condition, a validated condition is used exactly as parsed, an unparsable keep_firing_for condition reads as duration 0 (operator '=' when unknown). Evaluating labels leaves the group's label map "
            "untouched (full theorem after fix dac9e2b; the pre-fix aliasing is kept as a refuted regression statement with its exact partial guard). "
            "Tied by differential execution of the real isMatch/Entry.Labels/parseDurationMatch/matchRegex on generated configs x entries x command "
            "(regexp anchoring tested on a pattern grammar with alternations) and by per-block marker checks on the real binary against a reference evaluator.",
    "note": "Coq 8.16.1 kernel+VM, no axioms; regexp/duration libraries are oracles tabulated by the harness; HCL decoding and the YAML parser are inputs; "
            "no open known finding (the MergeMaps aliasing found by this check was repaired by dac9e2b; its reverse patch is a mutant).",
    "technique": "Coq theorem (code-order evaluation = documented conjunction/disjunction) + differential correspondence + marker-check oracle on the binary",
}
