import pv
READY = True

SPEC = {
    "targets": ["Properties/C18.vo", "Run/C18.vo"],
    "theorems": {"Properties.C18": [
        "C18_must_expand_total", "C18_use_sites_total", "C18_unvalidated_pattern_crashes",
        "C18_constant_templates_total_prefix", "C18_prefix_protocol_refuted",
        "C18_every_dropped_error_is_validated", "C18_every_dropped_error_is_reviewed",
        "C18_guard_check_rejects_unguarded_use", "C18_validation_reaches_every_block", "C18_nonvacuous"]},
    "harness_args": lambda tier: ["C18", "--n", 60 if tier == "quick" else 4000],
    "search_args": lambda tier: ["C18", "--n", 100, "--templates", "no"],
    "harness_timeout": 2400,
    "level": "proof",
    "trusted_base": [
        "Coq 8.16.1 kernel + VM; no axioms",
        "translator: core table dropped_error_sites (internal/config, internal/checks) + ext_C18 (every call inside validate()/Validate()/Load with "
        "argument and `!= \"\"` guard; dropped-error and Must* sites of cmd/pint; callers of matchRegex/strictRegex) -> Gen/Tables.v, Gen/C18.v, every run",
        "reviewed table coq/Model/TemplatedRegexpSites.v: the class of each site (validated-same-function rows are CHECKED against the generated validators; "
        "zero-value / rule-data / harmless / constant classes are review judgements, exercised by the binary-level runs, not proved)",
        "correspondence: real New(Raw)TemplatedRegexp / Expand / MustExpand vs Model/TemplatedRegexp.v; text/template and regexp tabulated by the harness through the Go libraries",
        "binary oracle: `pint config` verdict vs panic / fatal error / timeout of `pint lint` (offline and online against an in-process fake Prometheus, ephemeral port) under ulimit -v 8 GiB",
    ],
    "assumptions": [
        "the constant pattern [^\\s\\S] compiles (premise of C18_must_expand_total; checked on every correspondence case)",
        "crash freedom outside the listed dropped-error sites (plain nil dereferences, index errors, non-termination) has no theorem: runtime remainder covered by execution only",
    ],
}


def run(ctx):
    return pv.standard(ctx, SPEC)


MANIFEST = {
    "text": "PARTIAL (runtime remainder by execution). Theorems (Coq, no axioms): for every behaviour of text/template and regexp, a templated pattern "
            "accepted by load-time validation is built by the same function and expanded by a total MustExpand on every rule (the pre-fix protocol is "
            "refuted with a witness); finite theorem over tables regenerated from the Go AST: every site of internal/config, internal/checks and cmd/pint "
            "where an error is dropped or a Must* helper gets a non-constant argument is accounted for — validated at load by a call to the same function on "
            "the same field (checked against the generated validator table), or a reviewed harmless class, or belongs to an OPEN known finding (the crash rows are proved to be exactly the open findings; with none open the full statement follows). "
            "Tied by the translator, by differential execution of NewTemplatedRegexp/Expand/MustExpand on patterns x rules with regexp/template "
            "metacharacters, and by running the real binary on generated configurations over every documented block/option (valid, invalid, templated "
            "values): `pint config` verdict vs panic/hang/OOM of lint runs (offline and against a fake Prometheus).",
    "note": "Coq 8.16.1 kernel+VM, no axioms; the harmless classes of the site table are review judgements; four open known findings (three crashes of "
            "accepted configurations, one crash on a rule expression) with class predicates on input + crash site; crash freedom in general is not provable "
            "from an executable model and stays testing.",
    "technique": "Coq protocol theorem with library oracles + AST-generated site/validator tables with a reviewed disposition table + differential correspondence + load-vs-lint runs of the binary",
}
