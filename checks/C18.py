import pv
READY = True

SPEC = {
    "targets": ["Properties/C18.vo", "Run/C18.vo"],
    "theorems": {"Properties.C18": [
        "C18_must_expand_total", "C18_use_sites_total", "C18_unvalidated_pattern_crashes",
        "C18_constant_templates_total_prefix", "C18_prefix_protocol_refuted",
        "C18_annotation_label_blocks_total", "C18_unvalidated_block_key_crashes", "C18_reject_blocks_total",
        "C18_name_link_aggregate_blocks_total", "C18_block_model_matches_source",
        "C18_every_dropped_error_is_validated", "C18_validated_same_never_drops_an_error", "C18_every_dropped_error_is_reviewed",
        "C18_guard_check_rejects_unguarded_use", "C18_validation_reaches_every_block", "C18_every_option_is_validated_or_reviewed", "C18_upstream_uris_are_validated", "C18_nonvacuous"]},
    "harness_args": lambda tier: ["C18", "--n", 60 if tier == "quick" else 4000],
    "search_args": lambda tier: ["C18", "--n", 100, "--templates", "no"],
    "harness_timeout": 2400,
    "level": "proof",
    "trusted_base": [
        "Coq 8.16.1 kernel + VM; no axioms",
        "translator: core table dropped_error_sites (internal/config, internal/checks) + ext_C18 -> Gen/Tables.v, Gen/C18.v, every run: every call inside "
        "validate()/Validate()/validate* helpers/Load with argument (loop variables resolved) and nearest `X != \"\"` guard; dropped-error and Must* sites of cmd/pint; "
        "callers of matchRegex/strictRegex; the `X != \"\"` guard around EVERY dropped-error / Must* / regexp-helper call (site_guards); the block schema of the "
        "configuration (every hcl block field of internal/config), every nested `<owner>.<Field>.validate()` call with whether its error is returned, and the "
        "struct types that have a validate method; every non-block option of every block and the receiver fields each validate method reads (directly or through a method of the same type, one level)",
        "reviewed table coq/Model/TemplatedRegexpSites.v: the class of each site. Validated rows (same function / Must wrapper / helper pair, same field) are CHECKED "
        "against the generated validators and guards, including that a validator under `F != \"\"` only covers uses that are all under `F != \"\"`; "
        "zero-value / defaulted / rule-data / harmless / constant / helper-body / CLI classes are review judgements, exercised by the binary-level runs, not proved",
        "correspondence: real New(Raw)TemplatedRegexp / Expand / MustExpand vs Model/TemplatedRegexp.v, and real Rule.validate / parseRule / String() / Check() of "
        "annotation, label, reject, name and aggregate blocks vs Model/TemplatedRegexpBlocks.v (valid and invalid patterns); text/template and regexp tabulated by "
        "the harness through the Go libraries",
        "binary oracle: `pint config` verdict vs panic / fatal error / timeout of `pint lint` (offline and online against an in-process fake Prometheus, ephemeral port) under ulimit -v 8 GiB; "
        "systematic strata: every match/ignore condition and every option of every rule-level settings block (and of check \"promql/series\") x valid/invalid/borderline values x a rule file in which each is reached; documented --enabled/--disabled value forms "
        "(for the strata the load verdict is read off the lint run itself: every command loads the file through the same config.Load first)",
    ],
    "assumptions": [
        "the constant pattern [^\\s\\S] compiles (premise of the totality theorems; checked on every correspondence case)",
        "crash freedom outside the listed dropped-error sites (plain nil dereferences, index errors, non-termination) has no theorem: runtime remainder covered by execution only",
        "which pointers a check dereferences without a nil test (String(), MustExpand call sites) is hand-modelled in TemplatedRegexpBlocks.v and validated by the block correspondence",
    ],
}


def run(ctx):
    return pv.standard(ctx, SPEC)

MANIFEST = {
    "text": "PARTIAL (runtime remainder by execution). Theorems (Coq, no axioms): (1) for every behaviour of text/template and regexp, a templated pattern accepted by "
            "load-time validation is built by the same function and expanded by a total MustExpand on every rule (the pre-fix protocol is refuted with a witness); "
            "lifted to whole rule sub-blocks: an annotation / label / reject / name / link / aggregate block accepted by its validate() is turned by parseRule into checks "
            "whose String() and every regexp use inside Check are total on every rule, with no configured option silently dropped, while an unvalidated key crashes at "
            "the first String() call. (2) FULL statement over tables regenerated from the Go AST: every site of internal/config, internal/checks, internal/promapi, internal/discovery and cmd/pint where an "
            "error is dropped or a Must* helper gets a non-constant argument is validated at load by a call to the same function on the same field with compatible "
            "emptiness guards on both sides (checked mechanically against the generated validator and guard tables), or belongs to a reviewed harmless class; no known-crash "
            "class exists (all crash rows were repaired in /repo: 457aa6b, 4986535, 4008951, 0b2762d, 72c92b8, 9df854d, 7fc2b62, 43069bd, 6f3f221). "
            "(3) load-time validation reaches every one of the 35 blocks of the configuration schema: the block type has a validate method, its parent calls it on that "
            "field and returns its error, transitively from config.Load; and every one of the 128 OPTIONS of those blocks is looked at by its block's validate method, "
            "or is a boolean, or carries a reviewed reason why any value is acceptable (34, among them the two options that are parsed later but never validated: "
            "match.keep_firing_for and gitlab.timeout, whose dropped error only yields a zero value); upstream URIs (uri, failover, prometheusQuery.uri) are url.Parse'd at load (6f3f221); a new site, block or option without validation breaks a theorem. "
            "Tied by the translator, by differential execution of NewTemplatedRegexp/Expand/MustExpand and of Rule.validate/parseRule/String/Check on patterns x rules with "
            "regexp/template metacharacters, and by running the real binary on generated configurations over every documented block/option (valid, invalid, templated values; "
            "every match/ignore condition and every option of every rule-level block, one at a time over its whole value pool, crossed with a rule file that reaches it; --enabled/--disabled forms): `pint config` verdict vs panic/hang/OOM of lint runs (offline and "
            "against a fake Prometheus).",
    "note": "Coq 8.16.1 kernel+VM, no axioms; the harmless classes of the site table (zero value, defaulted, rule data, constant, helper body, CLI flag) are review "
            "judgements exercised by execution; no open known finding (the last one, C18-upstream-uri-unparsed, was reported by an independent reader, confirmed here and repaired by 6f3f221; this check had missed it because internal/promapi was outside the site scan and the options were wrongly reviewed as harmless - both closed); crash freedom in general is not provable from an executable model and stays testing.",
    "technique": "Coq protocol theorems with library oracles (single pattern and whole block) + AST-generated site/validator/guard/schema tables with a reviewed disposition table + "
                 "differential correspondence + load-vs-lint runs of the binary",
}
