import pv

SPEC = {
    "targets": ["Properties/C01.vo", "Run/C01.vo"],
    "theorems": {"Properties.C01": [
        "C01_sound_partial", "C01_rule_sound", "C01_plain_fragment_inside",
        "C01_mask_id", "C01_fixed_witnesses_blocked", "C01_sound_refuted_null_tag_text", "C01_sound_refuted_group_labels_alias",
        "C01_sound_refuted_merge_not_alias", "C01_sound_refuted_tag_kind", "C01_nonvacuous", "C01_nonvacuous_alias"]},
    "harness_args": lambda tier: (["C01", "--n", 300, "--cat", 40, "--stress", 4] if tier == "quick"
                                  else ["C01", "--n", 15000, "--cat", -1, "--stress", 40]),
    "search_args": lambda tier: ["C01", "--n", 3000, "--cat", -1, "--stress", 16],
    "level": "proof",
    "trusted_base": [
        "Coq 8.16.1 kernel + VM; no axioms (Print Assumptions: closed under the global context)",
        "hand-written Gallina models over the node forest yaml.v3 returned: pint's strict parser (Model/Parser.v), readRules + the "
        "Bug/Fatal checks C01 relies on (Model/Routing.v: yaml/parse, promql/syntax, alerts/for invalid duration, alerts/template syntax), "
        "and Prometheus' loader (Model/PromLoader.v: yaml.v3 struct decoding of RuleGroups with KnownFields, duplicate keys, merge keys, "
        "aliases, null handling, + rulefmt Validate)",
        "tie, both sides, every run: (i) strict_blocks vs the real in-process strict pipeline (modelled reporters), (ii) prom_accepts vs the "
        "real rulefmt.Parse(content,false), on the serialised real forest with per-scalar oracle bits obtained from the real library "
        "functions (ParseExpr, ParseDuration, IsValidMetricName, LabelName/LabelValue.IsValid, template ParseTest, pint's checkTemplateSyntax, "
        "yaml.Node.Decode into string/int); (iii) the oracle hypotheses H_tmpl and H_empty are re-checked on every case",
        "oracle hypotheses of the theorem: H_tmpl (pint template check at least as strict as Prometheus'), H_str (a non-null scalar decodes "
        "into a string), H_int (an !!int scalar decodes into an int = guard of known finding C01-limit-not-int), H_empty (\"\" is no label "
        "name, is a label value, is a valid template)",
        "assumed, not modelled: the second, position-only decode of rulefmt.Parse fails only where the first one does; the masking reader is "
        "the identity on files without `# pint` comments (files with such comments are skipped); only the Prometheus schema (not Thanos)",
    ],
    "assumptions": [
        "theorem restricted to the documented fragment guards_doc (no aliases, no merge keys, natural tags, no null record/alert/expr, named "
        "groups); outside it the property is only searched by the implementation-level oracle (pint verdict vs rulefmt.Parse directly)",
        "strict_blocks models a subset of pint's Bug/Fatal problems; soundness direction: real pint passes => model does not block",
    ],
}


def run(ctx):
    return pv.standard(ctx, SPEC)

MANIFEST = {
    "text": "Theorem (Coq, no axioms, all oracles as premises): for every document stream inside the documented fragment (no aliases/merge "
            "keys/explicit collection tags, non-null record/alert/expr, named groups), if the model of pint's strict pipeline reports no "
            "Bug/Fatal (yaml/parse, promql/syntax, alerts/for, alerts/template syntax) then the model of Prometheus' loader (yaml.v3 struct "
            "decoding with KnownFields + rulefmt Validate) accepts the same node forest; plus the rule-level core on its own. The unguarded "
            "statement is machine-refuted by five witnesses that the real pint passes and the real rulefmt.Parse refuses (null record/alert/"
            "expr, group without name and rules, limit not decodable into int, `<<` merge of a non-alias, explicit tag contradicting the kind): "
            "registered known findings with class predicates, three with tested candidate patches. Tie: both models are compared on every "
            "case with the real pipeline and the real rulefmt.Parse on the real yaml.v3 forest; the property itself is searched directly "
            "(pint verdict vs rulefmt.Parse) on generated documents where every field is independently valid/invalid/mistyped/duplicated/"
            "missing/null/aliased/merged, plus byte/line mutations and hand-picked decoder corner cases.",
    "note": "Coq 8.16.1 kernel+VM, no axioms; both models hand-written and validated by differential execution; theorem holds on the stated "
            "fragment under named oracle hypotheses; five open known findings (pint passes, Prometheus refuses).",
    "technique": "Coq theorem relating two Gallina models (pint strict pipeline, Prometheus loader) over a shared node forest + two-sided "
                 "differential correspondence + direct pint-vs-rulefmt.Parse oracle",
}
