import pv
READY = True

SPEC = {
    "targets": ["Properties/C01.vo", "Run/C01.vo"],
    "theorems": {"Properties.C01": [
        "C01_sound_guarded", "C01_sound_partial", "C01_rule_sound", "C01_rule_sound_merge", "C01_plain_fragment_inside",
        "C01_mask_id", "C01_key_tables", "C01_fixed_witnesses_blocked", "C01_fixed_witnesses_blocked_round3", "C01_fixed_witnesses_blocked_tag_kind",
        "C01_sound_refuted_merge_not_alias", "C01_fixed_witness_blocked_label_key_alias", "C01_nonvacuous", "C01_nonvacuous_alias", "C01_nonvacuous_merge"]},
    "harness_args": lambda tier: (["C01", "--n", 300, "--cat", 40, "--stress", 4] if tier == "quick"
                                  else ["C01", "--n", 8000, "--cat", -1, "--stress", 40]),
    "search_args": lambda tier: ["C01", "--n", 4000, "--cat", -1, "--stress", 16, "--oracle-only"],
    "level": "proof",
    "trusted_base": [
        "Coq 8.16.1 kernel + VM; no axioms (Print Assumptions: closed under the global context)",
        "hand-written Gallina models over the node forest yaml.v3 returned: pint's strict parser (Model/Parser.v, as of /repo HEAD incl. "
        "d65cbbf, cc77cdd, a6b0afc, 3dfcdb6, b9483ac, 17469da, e113542, b22de24, 4a0d172, 2108dfa, cd8be7e; checked against HEAD 6f3f221), readRules + the Bug/Fatal checks C01 relies on (Model/Routing.v: yaml/parse, promql/syntax, "
        "alerts/for invalid duration, alerts/template syntax), Prometheus' loader (Model/PromLoader.v: yaml.v3 struct decoding of RuleGroups "
        "with KnownFields, duplicate keys, merge keys, aliases, faithful null handling incl. explicit !!null tags, + rulefmt Validate) and "
        "the masking reader (Model/Reader.v, tied by C10)",
        "tie, both sides, every run: (i) strict_blocks vs the real in-process strict pipeline (modelled reporters), (ii) prom_accepts vs the "
        "real rulefmt.Parse(content,false), (iii) the real ContentReader is the identity on the case's bytes, on the serialised real forest "
        "with per-scalar oracle bits obtained from the real library functions (ParseExpr, ParseDuration, IsValidMetricName, LabelName/"
        "LabelValue.IsValid, template ParseTest, pint's checkTemplateSyntax, yaml.Node.Decode into string/int/interface{}); (iv) the oracle "
        "hypotheses H_tmpl and H_empty are re-checked on every case",
        "oracle hypotheses of the theorem: H_tmpl (pint template check at least as strict as Prometheus'), H_str (a non-null scalar decodes "
        "into a string), H_empty (\"\" is no label name, is a label value, "
        "is a valid template); the same oracle int_ok is used by pint's limit check and by the loader",
        "assumed, not modelled: the second, position-only decode of rulefmt.Parse fails only where the first one does; files with pint control "
        "comments are skipped (mask_id covers the others); only the Prometheus schema (not Thanos)",
    ],
    "assumptions": [
        "theorem restricted to the documented fragment guards_doc (yaml.v3's structural invariants, no null-tagged mapping keys; aliases only as "
        "values of rule keys, inside rule labels/annotations and as values of group keys; at most one merge key `<<: *anchor` per rule "
        "mapping, none elsewhere); outside it the property is only searched by the implementation-level "
        "oracle (pint verdict vs rulefmt.Parse directly)",
        "strict_blocks models a subset of pint's Bug/Fatal problems; soundness direction: real pint passes => model does not block",
    ],
}


def run(ctx):
    return pv.standard(ctx, SPEC)

MANIFEST = {
    "text": "Theorem C01_sound_guarded (Coq, no axioms, all oracles as premises): for every document stream inside the documented fragment "
            "(nodes shaped as yaml.v3 builds them, tags free; yaml aliases allowed as values of rule keys, of rule labels/annotations and "
            "of group keys; one merge key `<<: *anchor` per rule), if the model of pint's "
            "strict pipeline reports no Bug/Fatal (yaml/parse, promql/syntax, alerts/for, alerts/template syntax) then the model of "
            "Prometheus' loader (yaml.v3 struct decoding with KnownFields + rulefmt Validate) accepts the same node forest; the rule-level "
            "core on its own; the alias-free fragment is an instance; the masking reader masks nothing on files without pint control "
            "comments and hands yaml.v3 the bytes with CR LF written as LF (mask_id; that both sides then decode the same forest is "
            "re-checked per case). The guards for null record/alert/expr, nameless groups and non-int "
            "limits are gone (repaired in pint: d65cbbf, cc77cdd, a6b0afc) and their former witnesses are machine-checked to be blocked now. "
            "The unguarded statement is machine-refuted by one remaining witness that the real pint passes and the real rulefmt.Parse "
            "refuses (`<<` merge of a non-alias: the one open known finding, with class predicate; a further class found in the last "
            "session, group label keys given as yaml aliases, was repaired by cd8be7e and its witness is machine-checked to be blocked). The premises pint now enforces itself are gone from the theorem: H_null and 'null-tagged scalars spell a null' "
            "(strict pre-pass b9483ac + extensionality of the loader model in its null oracle over reachable nodes), every 'tag matches "
            "kind' clause (kind_mismatch at nine sites), 'group-level values are not aliases' (17469da); C01_sound_partial is kept as a "
            "corollary. Four more classes found or confirmed this round "
            "(scalar tagged !!null with text, group `labels: *alias`, two `<<` keys in one mapping, explicit tag contradicting the kind) were "
            "repaired in pint from the candidate patches (b9483ac, 17469da, e113542, b22de24+4a0d172); their witnesses are machine-checked "
            "to be blocked now, their known findings are removed. The finite key tables of both sides are regenerated from the sources on every run and checked against "
            "the models (C01_key_tables). Only TESTED, not "
            "proved: that the models equal the implementations — both verdicts and the reader identity are compared on every case with the "
            "real pipeline and the real rulefmt.Parse on the real yaml.v3 forest; the property itself is searched directly (pint verdict vs "
            "rulefmt.Parse) on structure-aware random documents, a systematic single-deviation catalogue (every slot x YAML value shape, "
            "key dropped/duplicated/misplaced, every value as an alias of every kind of anchor, under both name validation schemes), and "
            "reader-stress files crossing 4 KiB / 64 KiB line and buffer sizes with a valid or defective tail.",
    "note": "Coq 8.16.1 kernel+VM, no axioms; models hand-written and validated by differential execution; theorem holds on the stated "
            "fragment under named oracle hypotheses; one open known finding (pint passes, Prometheus refuses).",
    "technique": "Coq theorem relating two Gallina models (pint strict pipeline, Prometheus loader) over a shared node forest + reader "
                 "identity lemma + three-way differential correspondence + direct pint-vs-rulefmt.Parse oracle",
}
