import pv
READY = True

SPEC = {
    "targets": ["Properties/C20.vo", "Run/C20.vo"],
    "theorems": {"Properties.C20": ["C20_dependency_iff", "C20_details_exact", "C20_removed_detected", "C20_removed_detected_kind_explicit", "C20_other_kind_same_name", "C20_removed_reaches_check", "C20_removed_with_dependants_reported", "C20_dispatch_tables", "C20_nonvacuous"]},
    "harness_args": lambda tier: ["C20", "--n", 250 if tier == "quick" else 5000, "--histories", 200 if tier == "quick" else 3000,
                                  "--inproc", 30 if tier == "quick" else 300],
    "search_args": lambda tier: ["C20", "--n", 600, "--histories", 600, "--inproc", 20],
    "level": "proof",
    "trusted_base": [
        "Coq 8.16.1 kernel + VM (vm_compute for the non-vacuity example and the correspondence evaluation); no axioms",
        "translator (/verif/translator, go/ast): every check's Meta().States / Reporter() and the baseRules registrations -> Gen/Tables.v (C20_dispatch_tables)",
        "correspondence: config.GetChecksForEntry (the real `pint ci` routing) selects rule/dependency for an entry iff the model's `dispatched` holds; "
        "the real RuleDependencyCheck.Check run on every entry of generated entry sets (real strict parser, real PromQL parser and "
        "utils.HasVectorSelector, random states, symlink copies, path/rule/syntax errors) vs Model/Dependency.check, byte-exact details text",
        "end to end: `pint ci --json` on scratch git repositories whose branch removes subsets of rules/files with random cross references "
        "(recording->recording/alert, ALERTS/ALERTS_FOR_STATE{alertname=...}; references printed in every PromQL position a selector can take: "
        "matchers, aggregation arguments and parameters, range/subquery arguments, beneath scalar(), string-taking functions, unary, parens, "
        "offset/@, either side of binary and set operators; the reference graph is what the generator printed; decoy matchers, duplicate providers, several "
        "files, renames, replacements, unrelated invalid rules (rule-level errors) and PromQL syntax errors in the same files, a file renamed onto "
        "the path of a deleted file of providers) vs the generator's reference graph (implementation-level oracle); this also exercises the "
        "scan.go dispatch and the Removed state of C03",
        "pipeline correspondence (c): the real git.Changes + GlobFinder + GitBranchFinder.Find run in-process on those repositories, then the real "
        "routing and the real Check on every entry of the final list, vs the composed model Model/Dependency.pipeline (Model/GitBranch.find, "
        "then report) on the same inputs: final states and problems byte-exact",
        "modelled not verified: rule_dependency.go is hand-modelled; the PromQL parser (selector list of an expression), the yaml parser, git and the "
        "change attribution (C03) are inputs or exercised end to end only",
    ],
    "assumptions": [
        "`selects` reads 'selects the metric' as: a vector selector whose name is the metric; the {__name__=\"x\"} spelling is not counted "
        "(selector Name is empty) -- a stated reading, such cases are counted and reported separately, never as violations",
        "the dispatch rule (state Removed only, removed entries with errors skipped) is modelled from scan.go/Meta().States and validated end to end; "
        "rule/dependency is assumed enabled by the configuration",
        "covered (named hypothesis of C20_removed_reaches_check / C20_removed_with_dependants_reported): every non-Removed branch entry without a "
        "rule error has a glob entry at its path and rule position (GlobFinder lists the HEAD tree); tested on every in-process history of the C03 "
        "check (histogram key hyp:glob-covers-head-entries-holds)",
    ],
}


def run(ctx):
    return pv.standard(ctx, SPEC)

MANIFEST = {
    "text": "Theorems (Coq, no axioms) about an executable model of RuleDependencyCheck (nonRemovedEntries, usesVector, usesAlert, replacement test, "
            "de-duplication, stable sort, details text) and the scan.go dispatch: for ALL entry sets a rule/dependency problem is emitted for an entry "
            "iff it is Removed, dispatched (no path/rule error), not a symlink copy, has no non-removed valid entry of its kind and name, and some "
            "remaining rule selects its metric / its alert through ALERTS{alertname=}; the listed (name, path:line) keys are exactly those of the "
            "dependants, without repeats, sorted by (path, line, name), and the details text is the rendering of that list; a base rule with no "
            "identical or same-named HEAD rule in a changed file is Removed (C03 model), that Removed entry reaches the list Find returns unchanged "
            "(under the tested hypothesis that the glob list covers the HEAD entries), and the composition (model of `pint ci` for this check = Find, "
            "then the check on every final entry) reports on it exactly under the stated conditions. Tied to the code every run by differential "
            "execution of the real check on generated entry sets (byte-exact details), by the pipeline correspondence (real git.Changes + GlobFinder "
            "+ Find + routing + Check in-process vs the composed model) and by `pint ci --json` on scratch repositories against the generator's "
            "reference graph. Only tested, not proved: faithfulness of the hand-written models, the PromQL selector lists, git.",
    "note": "Coq 8.16.1 kernel+VM, no axioms; hand-written model validated by differential execution; PromQL/yaml parsers, git and C03's change "
            "attribution are inputs or covered end to end only; the {__name__=\"x\"} spelling is a stated reading reported separately.",
    "technique": "Coq proofs over lists (dedup invariant, insertion-sort sortedness/permutation, merge invariant) + differential correspondence on "
                 "real entries + pipeline correspondence on git histories + scratch-git end-to-end oracle",
}
