import pv
READY = True

SPEC = {
    "targets": ["Properties/C16.vo", "Run/C16.vo"],
    "theorems": {"Properties.C16": ["C16_one_verdict_per_selector", "C16_present_not_missing", "C16_never_there_is_bug",
                                    "C16_rule_kind_matters", "C16_alerts_answered_from_rules",
                                    "C16_verdict_reflects_database_at_probe_instants", "C16_probe_instants",
                                    "C16_range_probe_is_unsliced_runs", "C16_disappeared_metric_is_reported", "C16_matcher_never_matches_is_reported",
                                    "C16_checked_selectors_are_the_reachable_ones_without_own_fallback",
                                    "C16_checked_selectors_are_those_without_own_fallback", "C16_checked_selectors_examples",
                                    "C16_nonvacuous"]},
    "harness_args": lambda tier: ["C16", "--n", 400 if tier == "quick" else 3000],
    "search_args": lambda tier: ["C16", "--n", 1200],
    "level": "proof",
    "trusted_base": [
        "Coq 8.16.1 kernel + VM (vm_compute for the correspondence cases and the non-vacuity example); no axioms "
        "(Print Assumptions: closed under the global context for all listed theorems)",
        "hand-written model Model/Series.v of the decision tree of SeriesCheck.Check per checked selector: done map, disable/snooze "
        "flags, ALERTS special case, step 1 instant count, uptime probe with dummy fallback, empty bare selector, step 2, recording-rule "
        "lookup, checkOtherServer/ignoreMatchingElsewhere, textAndSeverity/ignoreMetrics, step 3 (absent per label name), the "
        "accumulated len(problems) tests, step 4 (min-age), steps 5-7 per matcher, step 8, FindGaps against the uptime; the request "
        "parameters (instant: no time parameter; range: start/end/step of C13's slices). One sub-case is Undetermined and not compared "
        "(step 6 with non-empty gap lists on both sides: sub-millisecond clock differences decide it)",
        "hand-written model Model/SeriesSelectors.v of getNonFallbackSelectors / appendOperandSelectors / appendUnlessSelectors / selectorHasFallback over a model "
        "of the Source tree of utils.LabelsSource (Selector, AlwaysReturns, IsConditional, Joins, Unless) for the fragment selectors / "
        "always-returning operands / wrappers / comparisons with numbers / or / joins / unless; tied by comparing, on every case, the "
        "ordered list of positions it computes with the list the real function returns (the harness converts the Prometheus AST)",
        "inputs taken from the implementation through overlay exports: the selector records of getNonFallbackSelectors(expr) (their "
        "positions are compared with the selection model, and with the generator's by-construction expectation in the oracle), "
        "stripLabels(sel).String(), isDisabled/isSnoozed flags, getMinAge, isLabelValueIgnored",
        "harness: generators (rule files with extra rules of both kinds named like the referenced metrics/alerts, comments; databases: "
        "present / never / old data only / other label values / disappeared / appeared / intermittent / appeared, disappeared, "
        "reappeared 0.5-7.5 min ago; uptime with a hole), the engine-backed fake Prometheus (/api/v1/query and /api/v1/query_range "
        "from the VENDORED promql.Engine over an in-memory storage.Queryable, honouring time/start/end/step as sent and logging them; "
        "config/flags/metadata canned), attribution of problems to selectors by diagnostic column, the visibility-interval "
        "serialisation (sample runs widened by the 5m lookback delta), the regexp oracle table (Prometheus matcher semantics) and the "
        "ignoreMetrics table (Go regexp)",
        "the real check runs through a real FailoverGroup/Prometheus client (HTTP, JSON streaming, slicing, MergeRanges) against "
        "the fake server; PromQL engine, net/http, JSON decoding trusted as the 'server that actually evaluates the probes'",
    ],
    "assumptions": [
        "queries succeed (healthy server); error paths of the check are C15's subject",
        "wall clock: presence edges are >= 30 min away from the case's start minute or 0.5-7.5 min before it on half minutes; a case "
        "during which the clock crosses hh:mm:00.000 or hh:mm:59.000 is run again (all grids, slice boundaries and derived range ends sit "
        "there), so within a case no comparison pint makes depends on the instant at which a probe is evaluated",
        "selector text determines the selector (the done map of the check keys on selector.String()); lookbackRange >= 2h",
    ],
}


def run(ctx):
    return pv.standard(ctx, SPEC)


MANIFEST = {
    "text": "Theorems (Coq, no axioms) about the model of SeriesCheck.Check as a function of the database the server holds, for ALL "
            "databases, regexp semantics, clocks, settings, rule sets and selector lists: C16_present_not_missing - a checked selector "
            "for which the instant probe (no time parameter: the server's now) returns series gets no problem at all; "
            "C16_never_there_is_bug - a checked selector whose metric matches nothing at any instant of the range grid nor now, with no "
            "RECORDING rule of that name (C16_rule_kind_matters: alerting rules never count), no disable/snooze comment, not in "
            "ignoreMetrics, and no other server (or no ignoreMatchingElsewhere), gets exactly a Bug 'query on nonexistent series'; "
            "carve-outs are explicit premises (only checked selectors; ALERTS answered from ALERTING rules - "
            "C16_alerts_answered_from_rules). WHICH selectors are checked is a theorem too: "
            "C16_checked_selectors_are_the_reachable_ones_without_own_fallback - over a model of the Source tree, for every expression "
            "of the fragment (incl. unless) the checked selectors are the reachable selectors (all except those inside an `unless` "
            "operand that is not a condition) that do not sit beside an `or <always returning>`; without unless: all selectors except "
            "those with their own or-fallback (an always-returning operand elsewhere exempts nothing; nested joins and conditional "
            "unless operands are followed). The probe instants are pinned: the request parameters are part of the model, "
            "C16_verdict_reflects_database_at_probe_instants - the whole verdict list (steps 0-8) is a function of the database at "
            "`now` and at the grid points of the slices (C16_probe_instants), C16_range_probe_is_unsliced_runs - every range probe is "
            "the runs of ONE unsliced evaluation (C13). Steps 3-8 are modelled and compared; two links are stated: "
            "C16_disappeared_metric_is_reported (step 4, min-age) and C16_matcher_never_matches_is_reported (step 5). Tie: end to end on "
            "every run - the harness serves query/query_range from the vendored PromQL engine over generated in-memory databases, "
            "honouring and logging the request parameters, runs the real promql/series check through a real FailoverGroup; coqc "
            "compares per selector the (summary, severity) list and the requests (evaluation instant of every instant probe, "
            "start/end/step of every slice) with the model; an implementation-level oracle evaluates the selectors directly on the "
            "database for both clauses (incl. ALERTS{alertname=X} without alerting rule X).",
    "note": "Coq 8.16.1 kernel+VM, no axioms. Only tested, not proved: that the Go code is this model (differential), the step-6 sub-case "
            "with gaps on both sides (Undetermined, skipped), message texts. Checked-selector list, bare selector text, comment flags, "
            "min-age and ignored labels are taken from the implementation through overlay exports; PromQL engine/HTTP/JSON trusted as "
            "the live evaluator; real wall clock, cases crossing a critical instant are rerun.",
    "technique": "Coq theorem over decision-tree model on a database + engine-backed fake Prometheus end-to-end correspondence (verdicts and request parameters) and oracle",
}
