import pv
READY = True

SPEC = {
    "targets": ["Properties/C16.vo", "Run/C16.vo"],
    "theorems": {"Properties.C16": ["C16_one_verdict_per_selector", "C16_present_not_missing", "C16_never_there_is_bug",
                                    "C16_rule_kind_matters", "C16_alerts_answered_from_rules",
                                    "C16_verdict_reflects_database_at_probe_instants", "C16_probe_instants",
                                    "C16_range_probe_is_unsliced_runs", "C16_disappeared_metric_is_reported",
                                    "C16_nonvacuous"]},
    "harness_args": lambda tier: ["C16", "--n", 400 if tier == "quick" else 8000],
    "search_args": lambda tier: ["C16", "--n", 1200],
    "level": "proof",
    "trusted_base": [
        "Coq 8.16.1 kernel + VM (vm_compute for the correspondence cases and the non-vacuity example); no axioms "
        "(Print Assumptions: closed under the global context for all 5 theorems)",
        "hand-written model Model/Series.v of the decision tree of SeriesCheck.Check per checked selector (done map, disable/snooze "
        "flags, ALERTS special case, step 1 instant count, empty bare selector, step 2 range count of the bare selector through the "
        "sliced pipeline of C13, recording-rule lookup, checkOtherServer/ignoreMatchingElsewhere, textAndSeverity/ignoreMetrics); "
        "steps 3-8 are an opaque continuation and are not compared",
        "inputs taken from the implementation through overlay exports: the list getNonFallbackSelectors(expr) (also cross-checked "
        "against the generator's by-construction expectation in the oracle), stripLabels(sel).String(), isDisabled/isSnoozed flags",
        "harness: generators (rule files, databases: present / never / old data only / other label values / disappeared / appeared / "
        "intermittent), the engine-backed fake Prometheus (/api/v1/query, /api/v1/query_range from the VENDORED promql.Engine over "
        "an in-memory storage.Queryable; config/flags/metadata canned), attribution of problems to selectors by diagnostic column, "
        "the visibility-interval serialisation (sample runs widened by the 5m lookback delta), the regexp oracle table (Prometheus "
        "matcher semantics) and the ignoreMetrics table (Go regexp)",
        "the real check runs through a real FailoverGroup/Prometheus client (HTTP, JSON streaming, slicing, MergeRanges) against "
        "the fake server; PromQL engine, net/http, JSON decoding trusted as the 'server that actually evaluates the probes'",
    ],
    "assumptions": [
        "queries succeed (healthy server); error paths of the check are C15's subject",
        "wall clock: the database is generated relative to the run's start with >= 30 min slack around 'now' and >= 3h before the "
        "lookback window, so the verdict does not depend on the instant within the run at which each probe is evaluated",
        "selector text determines the selector (the done map of the check keys on selector.String())",
    ],
}


def run(ctx):
    return pv.standard(ctx, SPEC)


MANIFEST = {
    "text": "Theorems (Coq, no axioms) about the model of SeriesCheck.Check as a function of the database the server holds, for ALL "
            "databases, regexp semantics, clocks, settings, rule sets and selector lists: C16_present_not_missing - a checked selector "
            "for which an instant query returns series now gets no problem at all; C16_never_there_is_bug - a checked selector whose "
            "metric matches nothing at any instant the lookback probe evaluates (the probe is C13's sliced pipeline) nor now, with no "
            "recording rule of that name, no disable/snooze comment, not in ignoreMetrics, and no other server (or no "
            "ignoreMatchingElsewhere), gets exactly a Bug 'query on nonexistent series'; the carve-outs (only checked selectors, "
            "ALERTS answered from the rule set - C16_alerts_answered_from_rules) are explicit premises; C16_one_verdict_per_selector "
            "fixes the shape of the verdict list. Tie: end to end on every run - the harness serves query/query_range from the vendored "
            "PromQL engine over generated in-memory databases, runs the real promql/series check through a real FailoverGroup, and "
            "coqc compares the problems per selector (summary, severity) with the model; an implementation-level oracle evaluates "
            "the selectors directly on the database for both clauses.",
    "note": "Coq 8.16.1 kernel+VM, no axioms. The model covers steps 0-2 of the decision tree (the part the property speaks about); "
            "steps 3-8 are opaque. Checked-selector list, bare selector text and comment flags are taken from the implementation "
            "through overlay exports; PromQL engine/HTTP/JSON trusted as the live evaluator; real wall clock with designed slack.",
    "technique": "Coq theorem over decision-tree model on a database + engine-backed fake Prometheus end-to-end correspondence and oracle",
}
