import pv
READY = True

SPEC = {
    "targets": ["Properties/C10.vo", "Run/C10.vo"],
    "theorems": {"Properties.C10": ["C10_spec_noninterference", "C10_spec_noninterference_eq", "C10_spec_insert_shift", "C10_spec_insert_shift_files", "C10_spec_steps_is_spec",
                                    "C10_impl_refines_spec_partial", "C10_known_class_within_guard", "C10_impl_refines_spec_refuted", "C10_impl_refines_spec_refuted_channels",
                                    "C10_impl_noninterference_partial", "C10_nonvacuous", "C10_tables_match_source", "C10_pipeline_factors", "C10_pipeline_factors_yaml"]},
    "harness_args": lambda tier: (["C10", "--n", 200, "--exh", 3, "--coresample", 150, "--pairs", 8, "--oracle", 240] if tier == "quick"
                                  else ["C10", "--n", 5000, "--exh", 4, "--coresample", 8000, "--pairs", 1, "--oracle", 4000]),
    # search mode (something broke, no failing input yet; run on up to three more seeds): oracle-heavy, few model cases,
    # sized so that one seed takes ~1 min (a failing run must end within ~5 min)
    "search_args": lambda tier: ["C10", "--n", 40, "--exh", 1, "--pairs", 5, "--oracle", 800],
    "level": "proof",
    "trusted_base": [
        "Coq 8.16.1 kernel + VM (vm_compute); no axioms (Print Assumptions: closed under the global context for every listed theorem)",
        "translator/ext_C10.go (go/ast): comment prefix, keyword strings, comments.Type iota block, parseType and IsRuleComment switches, "
        "per-type behaviour of ContentReader.parseComments -> Gen/C10.v; theorem C10_tables_match_source re-proved against it every run",
        "correspondence: real ContentReader via overlay export parser.VerifReadAll vs Model.Reader.reader_impl (masked bytes, lines, comments, "
        "diagnostics, lineno, flags) on exhaustive short files, alphabet pairs and random/mutated files; Go class predicate vs Coq predicate",
        "harness: generators, serialiser, reflection-based projection of parser structs, class predicates of the 3 known findings (Go)",
        "modelled not verified: comments.go and read.go are hand-modelled (validated by differential execution); unicode.L table pasted from Go "
        "(Unicode 15.0.0); yaml.v3, rule parsing, checks and reporters are exercised only by the relational oracle",
    ],
    "assumptions": [
        "time.Parse of snooze stamps is an input (tp), supplied by the harness for every token of the file",
        "the file is read completely and without I/O error (Read's chunked copying is not modelled)",
        "downstream of the reader everything is a function of the reader's five outputs (Parser.Parse passes nothing else on); stated as the "
        "universally quantified `downstream` of C10_pipeline_factors",
    ],
}


def run(ctx):
    """pv.standard plus one step: a known-class oracle failure that the reader MODEL does not explain (Run/C10.v TPair:
    the model's outputs for the two files are identical, so nothing downstream may differ) is a concrete failing input
    outside the known finding, not merely a broken correspondence."""
    orig = pv.run_cases

    def run_cases(c, spec, hargs, search=False):
        report, mism = orig(c, spec, hargs, search)
        if report is not None:
            cases = report.get("cases") or {}
            for i, tag in mism:
                if "unexplained-oracle-failure" in tag:
                    c.add_violation("C10: two files that differ only in excluded text give different rules/positions/problems on the "
                                    "real pipeline, and the reader model does NOT distinguish them (not the known leak)",
                                    cases.get(str(i)))
        return report, mism

    pv.run_cases = run_cases
    try:
        return pv.standard(ctx, SPEC)
    finally:
        pv.run_cases = orig


MANIFEST = {
    "text": "Theorems (Coq, no axioms) about a byte-exact Gallina model of internal/parser/read.go (ContentReader: four flags, per-line step, "
            "emptyCurrentLine, comment/diagnostic collection) and internal/comments (7-state grammar incl. Go UTF-8 decoding), and about a "
            "3-state spec of the documented meaning (MaskSpec): for ALL files and payloads, replacing excluded text (after ignore/file, between "
            "begin/end, next-line target, text in front of ignore/line) by text with the same number of lines leaves the spec's outputs equal up to "
            "the number of leading spaces, and exactly equal for same-length text; inserting a fully excluded block only inserts yaml-blank lines "
            "and shifts line numbers; the real reader refines the spec on every file without a pint control comment inside excluded text "
            "(exact guard), the full refinement is refuted by four machine-checked witnesses that also fail on the real code (known finding); "
            "outside that class nothing downstream of the reader can change. Tied to the source every run by an AST translator (comment tables, "
            "per-type reader switch), byte-level differential execution of the real reader (exhaustive short files + alphabet pairs + random) and "
            "a two-run relational oracle on the real parser and pint binary (payload replacement, block insertion; payloads incl. non-ASCII text "
            "ending in active yaml syntax; one pair in three embedded 1-2 times in literal block scalars with excluded lines shorter / "
            "equal / longer than the block indentation). The bytes handed to "
            "yaml (CR LF -> LF since fix 670b316) are modelled as r_yaml, a function of the masked bytes. Four genuine defects are "
            "registered as known findings with class predicates (control comment in excluded text; directive column next to a comment; "
            "length inside a block scalar; excluded line of >= 511 bytes vs yaml.v3's comment lookahead); a known-class failure that the reader model does not explain is still reported as a violation.",
    "note": "Coq kernel+VM, no axioms; translator and harness trusted for extraction/serialisation; comments.go/read.go hand-modelled and "
            "validated by correspondence, not verified from Go source; yaml.v3/rule parser/checks only exercised by the oracle; unicode.L table "
            "static; time.Parse is an input; known findings C10-control-comment-in-excluded-text, C10-directive-column, C10-length-in-block-scalar, "
            "C10-long-blanked-line.",
    "technique": "Coq refinement (implementation state machine vs documented-meaning state machine) + non-interference/insert-shift theorems + "
                 "AST-generated tables + byte-level differential correspondence + two-run relational oracle",
}
