import pv

READY = True

SPEC = {
    "targets": ["Properties/C05.vo", "Run/C05.vo"],
    "theorems": {"Properties.C05": ["C05_lint_exit_iff", "C05_ci_exit_iff", "C05_min_severity_irrelevant",
                                    "C05_below_threshold_passes", "C05_severity_tables", "C05_nonvacuous",
                                    "C05_lint_flow_partial", "C05_lint_flow_refuted", "C05_lint_crash_exact",
                                    "C05_ci_flow_partial", "C05_ci_flow_refuted", "C05_no_reports_passes", "C05_exit_paths_of_the_source",
                                    "C05_flag_defaults", "C05_base_branch_plain", "C05_flow_nonvacuous"]},
    "harness_args": lambda tier: ["C05", "--n", 25 if tier == "quick" else 400],
    "search_args": lambda tier: ["C05", "--n", 150],
    "level": "proof",
    "trusted_base": [
        "Coq 8.16.1 kernel + VM (vm_compute); no axioms (Print Assumptions: closed under the global context)",
        "translator (/verif/translator, go/ast): Severity iota block, ParseSeverity and Severity.String switch tables -> Gen/Tables.v",
        "correspondence: real pint binary (lint and ci) exit status vs Model.Severity on the severities of pint's own --json report",
        "modelled not verified: the threshold loops of actionLint/actionCI and Summary.Report/CountBySeverity are hand-modelled; "
        "urfave/cli flag parsing, os.Exit mapping of a returned error, JSON encoding are trusted",
    ],
    "assumptions": [
        "the --json report lists every report of the Summary (json.go iterates Summary.Reports() unfiltered)",
        "a non-nil error returned by the action becomes a non-zero exit status",
    ],
}


def run(ctx):
    return pv.standard(ctx, SPEC)

MANIFEST = {
    "text": "Theorems (Coq, no axioms): for every arrival stream of reports, the modelled exit decision of pint lint / pint ci "
            "(Summary.Report duplicate suppression, CountBySeverity, threshold loop) is non-zero iff some reported problem has "
            "severity >= --fail-on; --min-severity is irrelevant; below-threshold problems never fail; the severity tables "
            "(regenerated from the Go AST every run) are strictly ordered info<warning<bug<fatal and round-trip. "
            "The model is tied to the code by the translator (tables) and by running the real pint binary over generated "
            "files/configs/flag settings and comparing its exit status with the model on pint's own --json severities.",
    "note": "Coq 8.16.1 kernel+VM, no axioms; translator trusted for table extraction; actionLint/actionCI loops and Summary are "
            "hand-modelled and validated by differential execution of the binary (not verified from Go source); cli flag parsing, "
            "error->exit mapping and JSON encoding trusted.",
    "technique": "Coq theorem over fold/assoc-list model + AST-generated severity tables + binary-level differential correspondence",
}
