import pv

READY = True

SPEC = {
    "targets": ["Properties/C05.vo", "Run/C05.vo"],
    "theorems": {"Properties.C05": ["C05_lint_exit_iff", "C05_ci_exit_iff", "C05_min_severity_irrelevant",
                                    "C05_below_threshold_passes", "C05_severity_tables", "C05_nonvacuous",
                                    "C05_lint_flow", "C05_ci_flow", "C05_no_reports_passes", "C05_exit_paths_of_the_source", "C05_stage_order_of_the_source",
                                    "C05_flag_defaults", "C05_base_branch_plain", "C05_flow_nonvacuous"]},
    "harness_args": lambda tier: ["C05", "--n", 25 if tier == "quick" else 400],
    "search_args": lambda tier: ["C05", "--n", 150],
    "level": "proof",
    "trusted_base": [
        "Coq 8.16.1 kernel + VM (vm_compute); no axioms (Print Assumptions: closed under the global context)",
        "translator core.go (go/ast): Severity iota block, ParseSeverity and Severity.String switch tables -> Gen/Tables.v",
        "translator ext_C05.go (go/ast of cmd/pint): default value of every cli flag of the root/lint/ci commands, every return statement of "
        "actionLint/actionCI/actionSetup (nil or error, before or after checkRules), normalised shape of the two threshold decisions "
        "(operator between the CountBySeverity key and the once-assigned parsed --fail-on value, accumulation, final test), exit code of main(), the stage of every return statement in source order (by the callee whose error is returned; unknown callee = error), shape of "
        "reporter.Summary.CountBySeverity (every report counted once under its own severity, no filter or weight) -> Gen/C05.v; fails closed",
        "correspondence: the real pint binary (lint and ci) on generated files/configs x flag settings x one injected fault per error return "
        "(no path, missing path, bad/missing config, --workers 0, bad log level, unwritable --json/--checkstyle, failing Prometheus discovery = checkRules error, "
        "--json /dev/full = Submit error, not a git repository, unknown base branch, github reporter without token; GenerateStatic cannot fail after a successful config.Load) x pint ci from the base branch (spellings) / on a branch without changes x reporting flags "
        "(--teamcity, --checkstyle, --require-owner, --show-duplicates): exit status zero/non-zero vs Model/ExitFlow.v evaluated on the severities of pint's own --json report "
        "(the report must exist whenever the model says it was submitted; what happens to the report on early errors and which of two failures wins are model facts that are not compared)",
        "modelled not verified from Go source: the TOTAL order of the stages inside actionLint/actionCI (hand-written in Model/ExitFlow.v; the partial order the exit status "
        "depends on is an obligation over the generated stage sequences, the rest is validated by the fault runs and coincides with the generated sequence today), Summary.Report; urfave/cli flag parsing, JSON encoding are trusted; an exit status other than 0/1 is a crash (VIOLATION)",
    ],
    "assumptions": [
        "the --json report lists every report of the Summary (json.go iterates Summary.Reports() unfiltered)",
        "the outcome of every stage that depends on the outside world (config loading, discovery, git, Prometheus generation, file creation, reporter submission) is an input of the model",
    ],
}


def run(ctx):
    return pv.standard(ctx, SPEC)

MANIFEST = {
    "text": "Theorems (Coq, no axioms). (1) For every arrival stream of reports the modelled exit decision of pint lint / pint ci (Summary.Report duplicate "
            "suppression, CountBySeverity, threshold loop) is non-zero iff some reported problem has severity >= --fail-on; --min-severity is irrelevant; the severity "
            "tables (regenerated from the Go AST every run) are strictly ordered info<warning<bug<fatal and round-trip. (2) Over a model of the whole control flow of "
            "actionSetup/actionLint/actionCI (every return statement a stage; flag defaults, ParseSeverity, the base-branch test, the thresholds and main()'s exit code "
            "computed, outcomes of the outside world as inputs): a failing stage exits non-zero without submitting reports; an invalid --min-severity/--fail-on is detected "
            "after linting (lint: no report file; ci: empty report file); pint ci run from the base branch exits 0 without linting (the only exit-0 path that ignores the "
            "reports); otherwise exit != 0 iff a report reaches --fail-on and the reports were submitted; a branch producing no report passes for every valid --fail-on. "
            "(Full theorems since fix ec90fa6: the defect this check found - --require-owner plus a rule that failed to parse panicked with exit status 2 - is repaired; its reverse "
            "patch is a mutant and its witness a regression scenario.) (3) Finite, over Gen/C05.v regenerated from cmd/pint: in actionLint/actionSetup only "
            "the last return is nil, actionCI has exactly one more nil return placed before checkRules, both threshold decisions compare 'severity >= fail-on' with a "
            "never-reassigned parsed value, main exits 1 on error, the stage sequence of the returns respects setup < linting < submission < threshold (last, followed by the final nil), CountBySeverity counts every report once under its own severity, the flag defaults are fail-on=bug, min-severity=warning. Tied by the two translators and by running the real "
            "binary (exit status; report present whenever the model says submitted) over generated scenarios, a 4x4 severity/fail-on grid incl. severities fixed in built-in checks, the same issue reported with two different severities (both orders; on two rules, and by two check instances on the same rule with the union of "
            "single-block runs as reference), size extremes (80 KB lines/values, 400 rules), symlinked rule files/directories with the invariance oracle 'reporting flags change neither the exit status nor the JSON report', "
            "a ci branch deleting a still-referenced rule file and renaming another, one "
            "injected fault per error path, base-branch / no-change ci layouts and reporting flags.",
    "note": "Coq 8.16.1 kernel+VM, no axioms; translators trusted for table extraction; stage order and Summary hand-modelled and validated by differential execution of the "
            "binary (not verified from Go source); cli parsing, JSON encoding trusted. No open known finding (C05-require-owner-broken-rule-crash was repaired by ec90fa6).",
    "technique": "Coq theorems over fold/assoc-list model + staged control-flow model + AST-generated severity/flag/exit-path tables + binary-level differential correspondence with fault injection",
}
