import pv
READY = True

SPEC = {
    "targets": ["Properties/C07.vo", "Run/C07.vo"],
    "theorems": {"Properties.C07": ["C07_disable_exact", "C07_disable_exact_nodup", "C07_problems_exact", "C07_problems_exact_shift", "C07_problems_exact_snooze_shift", "C07_problems_exact_cfg",
                                    "C07_untargeted_comment_selection", "C07_problems_untargeted", "C07_problems_nonvacuous", "C07_comment_readers_match_source", "C07_snooze_live_exact", "C07_snooze_expired_noop",
                                    "C07_locked_ignores_comments", "C07_all_locked_ignore_comments",
                                    "C07_file_disable_all_rules", "C07_file_comment_noop", "C07_nonvacuous",
                                    "C07_grammar_roundtrip", "C07_grammar_keywords", "C07_roundtrip_disable",
                                    "C07_roundtrip_file_disable", "C07_roundtrip_snooze", "C07_grammar_nonvacuous",
                                    "C07_tables_match_source", "C07_attach_sound", "C07_attach_complete_below",
                                    "C07_attach_complete_part"]},
    "harness_args": lambda tier: (["C07", "--n", 300, "--oracle", 30] if tier == "quick" else ["C07", "--n", 6000, "--oracle", 400]),
    "search_args": lambda tier: ["C07", "--n", 2000, "--oracle", 120],
    "level": "proof",
    "trusted_base": [
        "Coq 8.16.1 kernel + VM (vm_compute); no axioms (Print Assumptions: closed under the global context for every theorem)",
        "translator/ext_C10.go (go/ast): comment tables -> Gen/C10.v, theorem C07_tables_match_source re-proved every run",
        "translator/ext_C07.go (go/ast): files of internal/checks that read rule comments -> Gen/C07.v (C07_comment_readers_match_source)",
        "correspondence via overlay exports: comments.Parse (byte level), isDisabledForRule / isEnabled / the GetChecksForEntry selection loop "
        "around parsedRule.isEnabled (fake RuleCheckers with chosen String()/Meta()), discovery.readRules DisabledChecks, parseRule comment "
        "attachment (yaml node snapshot before the call) vs Model.Comments / Model.Enable / Model.Reader / Model.Attach",
        "harness: generators, serialisers, the 12-line replica of the GetChecksForEntry loop in harness/C07/export_config.go",
        "modelled not verified: the Go functions are hand-modelled and validated by differential execution; Match.IsMatch, yaml.v3 comment "
        "placement, the checks themselves and time.Now() are not modelled",
    ],
    "assumptions": [
        "Match.IsMatch results do not depend on the inserted comment (they are inputs pr_match / cr_match of the model)",
        "H-insensitive / H-equivariant: the checks that stay selected answer the same on the entry with the extra comment and move their "
        "problems with the rule (explicit premises of C07_problems_exact_shift/_snooze_shift/_cfg/_untargeted; opaque checks; tested by the "
        "relational oracle on the binary; known not to hold for promql/series w.r.t. the comments it reads itself: disable/snooze "
        "promql/series(<selector>), rule/set promql/series ...)",
        "registered name = reporter name of a check (property C08)",
        "attachment model covers mappings without aliases and merge keys (unpackNodes = identity)",
    ],
}


def run(ctx):
    # the comment/reader tables (coq/Gen/C10.v) are shared with C10: regenerate them from the current tree first
    ctx._translate("ext_C10", "C10.v")
    return pv.standard(ctx, SPEC)


MANIFEST = {
    "text": "Theorems (Coq, no axioms, for every clock value and every behaviour of time.Parse): one extra `# pint disable m` (or live snooze) "
            "among a rule's comments changes the set of checks selected for that rule exactly as deleting from the configuration the checks m "
            "targets (registered name, String(), name(+tag)) that are neither locked nor always-enabled - every other check is selected as before, "
            "including the String()-based de-duplication; lifted to the reported problems with the checks as opaque functions under two named "
            "hypotheses (insensitivity to the added comment, equivariance under the one-line shift): problems after = shift(filter(not targeted) "
            "problems before); comments of any other type (rule/set, rule/owner, file/owner) and disable/snooze comments matching no configured check "
            "(promql/series(<selector>)) never change the selection; an expired snooze changes nothing; locked checks do not read rule comments; a "
            "file/disable or live file/snooze does the same for every rule of the file (locked not protected), an expired file/snooze nothing; "
            "the comment grammar round-trips for all 12 keywords at any offset after '#'-free ASCII text; rule.Comments are exactly rule-type "
            "comments from comment fields of the rule's own yaml subtree (sound, and complete for all fields below the keys/values). Tied to the "
            "source every run by the AST translator (comment tables), by differential execution of comments.Parse, isDisabledForRule, isEnabled, "
            "parsedRule.isEnabled inside the GetChecksForEntry loop, readRules and parseRule through overlay exports, and by a before/after oracle "
            "on the real pint binary: inserting one comment (9 forms x 5 placements, every (rule, reporter) present) removes exactly the targeted "
            "reports modulo the inserted line.",
    "note": "Coq kernel+VM, no axioms; translator/harness trusted; Go functions hand-modelled and validated by correspondence, not verified from "
            "source; Match.IsMatch, yaml.v3 comment placement, checks and time.Now() not modelled; insensitivity of the other checks to the "
            "comment is tested, not proved; depends on C08 (registered name = reporter).",
    "technique": "Coq theorems over fold/filter model of the enable decision + grammar state machine round trip + AST-generated tables + "
                 "differential correspondence through overlay exports + relational before/after oracle on the binary",
}
