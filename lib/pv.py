"""Shared driver library for /verif checks (see DESIGN.md §3.3).

One check run = translator -> coq make (proof obligations) -> harness build from the
current source tree -> harness run (implementation + oracle) -> coqc on the generated
case files (model vs implementation) -> verdict + evidence.
"""
import fcntl
import hashlib
import json
import os
import re
import shutil
import subprocess
import sys
import time

VERIF = os.path.dirname(os.path.dirname(os.path.abspath(__file__)))
SRC = os.environ.get("PINT_SRC", "/repo")
BUILD = os.path.join(VERIF, ".build")
_SRC_TAG = hashlib.md5(SRC.encode()).hexdigest()[:8]
if SRC == "/repo":
    COQ = os.path.join(VERIF, "coq")
    WORK = os.path.join(VERIF, ".work")
else:
    # mutant / scratch-tree testing: never touch the main Coq tree, work dir or evidence
    COQ = os.path.join(BUILD, "coq-" + _SRC_TAG)
    WORK = os.path.join(BUILD, "work-" + _SRC_TAG)
EVID = os.path.join(VERIF, "evidence") if SRC == "/repo" else os.path.join(BUILD, "evidence-" + _SRC_TAG)
REPLAYS = os.path.join(VERIF, "replays") if SRC == "/repo" else os.path.join(BUILD, "replays-" + _SRC_TAG)
NPROC = os.cpu_count() or 4

GOENV = dict(os.environ)
GOENV.update({"GOFLAGS": "-mod=mod", "GOPROXY": "off"})
GOENV.pop("GOTOOLCHAIN", None)
GOENV.pop("GOSUMDB", None)

FORBIDDEN = re.compile(
    r"\b(Admitted|admit|Axiom|Axioms|Parameter|Parameters|Conjecture|Conjectures|Abort All|"
    r"Unset Guard Checking|Unset Positivity Checking|Unset Universe Checking|bypass_check|"
    r"Admit Obligations|native_compute)\b")


def sh(cmd, cwd=None, env=None, timeout=None, inp=None):
    """Run a command, return (rc, stdout+stderr)."""
    try:
        p = subprocess.run(cmd, cwd=cwd, env=env, timeout=timeout, input=inp,
                           stdout=subprocess.PIPE, stderr=subprocess.STDOUT,
                           shell=isinstance(cmd, str))
        return p.returncode, p.stdout.decode("utf-8", "replace")
    except subprocess.TimeoutExpired as e:
        out = (e.stdout or b"").decode("utf-8", "replace")
        return 124, out + "\n[timeout after %ss]" % timeout


class Lock:
    def __init__(self, name):
        os.makedirs(BUILD, exist_ok=True)
        self.path = os.path.join(BUILD, name + ".lock")

    def __enter__(self):
        self.f = open(self.path, "w")
        fcntl.flock(self.f, fcntl.LOCK_EX)
        return self

    def __exit__(self, *a):
        fcntl.flock(self.f, fcntl.LOCK_UN)
        self.f.close()


def write_if_changed(path, content):
    try:
        with open(path) as f:
            if f.read() == content:
                return False
    except FileNotFoundError:
        pass
    os.makedirs(os.path.dirname(path), exist_ok=True)
    with open(path, "w") as f:
        f.write(content)
    return True


def coq_sources():
    out = []
    for root, _dirs, files in os.walk(COQ):
        for f in files:
            if f.endswith(".v"):
                out.append(os.path.relpath(os.path.join(root, f), COQ))
    return sorted(out)


def gen_coq_project():
    body = "-Q . PintV\n-arg -w -arg -notation-overridden,-deprecated-hint-without-locality,-deprecated-instance-without-locality,-deprecated,-ambiguous-paths\n"
    body += "\n".join(coq_sources()) + "\n"
    changed = write_if_changed(os.path.join(COQ, "_CoqProject"), body)
    if changed or not os.path.exists(os.path.join(COQ, "Makefile")):
        rc, out = sh(["coq_makefile", "-f", "_CoqProject", "-o", "Makefile"], cwd=COQ)
        if rc != 0:
            raise RuntimeError("coq_makefile failed: " + out)


def _strip_comments(txt):
    out = []
    depth = 0
    i = 0
    n = len(txt)
    instr = False
    while i < n:
        c = txt[i]
        if depth == 0 and c == '"':
            instr = not instr
            out.append(c)
            i += 1
            continue
        if not instr and txt.startswith("(*", i):
            depth += 1
            i += 2
            continue
        if not instr and depth > 0 and txt.startswith("*)", i):
            depth -= 1
            i += 2
            continue
        if depth == 0:
            out.append(c)
        elif c == "\n":
            out.append(c)
        i += 1
    return "".join(out)


def dep_closure(targets):
    """.v files (relative to coq/) reachable from the given .vo targets through PintV imports."""
    todo = [t[:-1] if t.endswith(".vo") else t for t in targets if t != "all"]
    if "all" in targets:
        return coq_sources()
    seen = set()
    while todo:
        rel = todo.pop()
        if rel in seen or not os.path.exists(os.path.join(COQ, rel)):
            continue
        seen.add(rel)
        with open(os.path.join(COQ, rel)) as f:
            txt = _strip_comments(f.read())
        for m in re.finditer(r"From\s+PintV\s+Require\s+(?:Import|Export)?\s*([^.]*(?:\.[A-Za-z_][^.\s]*)*[^.]*)\.\s", txt):
            for name in m.group(1).split():
                todo.append(name.replace(".", "/") + ".v")
        for m in re.finditer(r"Require\s+(?:Import|Export)?\s*((?:PintV\.[\w.]+\s*)+)\.", txt):
            for name in m.group(1).split():
                todo.append(name[len("PintV."):].replace(".", "/") + ".v")
    return sorted(seen)


def grep_forbidden(files=None):
    """Returns list of 'file:line: text' with forbidden vernacular (comments and strings stripped)."""
    bad = []
    for rel in (files if files is not None else coq_sources()):
        with open(os.path.join(COQ, rel)) as f:
            txt = _strip_comments(f.read())
        txt = re.sub(r'"(?:[^"]|"")*"', '""', txt)
        for i, line in enumerate(txt.split("\n"), 1):
            if FORBIDDEN.search(line):
                bad.append("%s:%d: %s" % (rel, i, line.strip()))
    return bad


class Ctx:
    def __init__(self, prop, tier, seed):
        self.prop = prop
        self.tier = tier
        self.seed = seed
        self.t0 = time.time()
        self.work = os.path.join(WORK, prop)
        shutil.rmtree(self.work, ignore_errors=True)
        os.makedirs(self.work, exist_ok=True)
        os.makedirs(EVID, exist_ok=True)
        os.makedirs(os.path.join(REPLAYS, prop), exist_ok=True)
        if SRC != "/repo":
            os.makedirs(COQ, exist_ok=True)
            with Lock("coq"):
                sh(["rsync", "-a", "--delete", "--exclude", "Makefile*", "--exclude", ".Makefile.d", "--exclude", "_CoqProject",
                    os.path.join(VERIF, "coq") + "/", COQ + "/"])
        self.obligations = []      # list of dicts {name, file, ok, assumptions}
        self.broken = []           # list of strings describing broken obligations/correspondence
        self.violations = []       # list of dicts (concrete failing inputs)
        self.known_hits = {}       # known finding id -> count
        self.notes = []
        self.cov = {}
        self.assumptions = []
        self.log_lines = []

    # ---------------------------------------------------------------- logging
    def log(self, *a):
        s = " ".join(str(x) for x in a)
        self.log_lines.append(s)
        print(s, flush=True)

    # ------------------------------------------------------------- translator
    def translator(self):
        """Regenerate coq/Gen/Tables.v (core tables) and, when translator/ext_<prop>.go exists,
        coq/Gen/<prop>.v from the current source tree.  The translator fails closed."""
        ok = self._translate("core", "Tables.v")
        if os.path.exists(os.path.join(VERIF, "translator", "ext_%s.go" % self.prop)):
            ok = self._translate("ext_" + self.prop, self.prop + ".v") and ok
        return ok

    def _translate(self, tag, outname):
        with Lock("translator"):
            tdir = os.path.join(VERIF, "translator")
            binp = os.path.join(BUILD, "translator-" + tag)
            srcs = [os.path.join(tdir, f) for f in os.listdir(tdir)]
            newest = max(os.path.getmtime(s) for s in srcs)
            if not os.path.exists(binp) or os.path.getmtime(binp) < newest:
                rc, out = sh(["go", "build", "-tags", tag, "-o", binp, "."], cwd=tdir,
                             env=dict(GOENV, GOFLAGS="", GO111MODULE="on"), timeout=600)
                if rc != 0:
                    raise RuntimeError("translator build failed:\n" + out)
            tmp = os.path.join(self.work, outname)
            rc, out = sh([binp, "-src", SRC, "-out", tmp, "-json", os.path.join(BUILD, outname + ".json")], timeout=120)
            if rc != 0:
                self.broken.append("translator(%s): cannot extract tables from the current source: %s" % (tag, out.strip()[-2000:]))
                self.log("translator FAILED:", out.strip()[-2000:])
                return False
            with open(tmp) as f:
                content = f.read()
            with Lock("coq"):
                if write_if_changed(os.path.join(COQ, "Gen", outname), content):
                    self.log("translator: Gen/%s changed" % outname)
        return True

    # -------------------------------------------------------------------- coq
    def make(self, targets, timeout=1500):
        """Build .vo targets (relative to coq/). Returns True when all built."""
        with Lock("coq"):
            gen_coq_project()
            bad = grep_forbidden(dep_closure(targets))
            if bad:
                self.broken.append("forbidden vernacular in development: " + "; ".join(bad[:5]))
                return False
            t = time.time()
            rc, out = sh(["make", "-j%d" % NPROC, "-k"] + targets, cwd=COQ, timeout=timeout)
            self.log("coq make %s: rc=%d %.1fs" % (" ".join(targets), rc, time.time() - t))
            self.make_out = out
            if rc != 0:
                errs = re.findall(r'File "\./([^"]+)", line (\d+)[^\n]*\n(?:[^\n]*\n){0,6}?Error:[^\n]*(?:\n[^\n]+){0,4}', out)
                self.log(out[-3000:])
                self.failed_files = sorted(set(e[0] for e in errs))
                return False
            return True

    def check_theorems(self, module, theorems, allowed_axioms=()):
        """Print Assumptions for each theorem of coq module PintV.<module>.

        Registers one obligation per theorem.  A theorem whose file does not build, that is
        missing, or that depends on an axiom outside `allowed_axioms` is a broken obligation."""
        src = "From PintV Require Import %s.\n" % module
        for t in theorems:
            src += 'Goal True. idtac "@@BEGIN %s". Abort.\nPrint Assumptions %s.\nGoal True. idtac "@@END %s". Abort.\n' % (t, t, t)
        path = os.path.join(self.work, "Assume_%s.v" % module.replace(".", "_"))
        with open(path, "w") as f:
            f.write(src)
        rc, out = sh(["coqc", "-Q", COQ, "PintV", path], cwd=self.work, timeout=600)
        allok = True
        for t in theorems:
            m = re.search(r"@@BEGIN %s\n(.*?)@@END %s" % (re.escape(t), re.escape(t)), out, re.S)
            ob = {"name": module + "." + t, "ok": False, "assumptions": None}
            if m:
                txt = m.group(1).strip()
                ob["assumptions"] = txt
                if txt.startswith("Closed under the global context"):
                    ob["ok"] = True
                else:
                    axs = re.findall(r"^([A-Za-z_][\w.']*)\s*:", txt, re.M)
                    if axs and all(a.split(".")[-1] in allowed_axioms for a in axs):
                        ob["ok"] = True
                        ob["axioms"] = axs
            if not ob["ok"]:
                allok = False
                why = ob["assumptions"] or self._why_missing(module, t, out)
                self.broken.append("theorem %s.%s no longer checks: %s" % (module, t, why[:600]))
            self.obligations.append(ob)
        return allok

    def _why_missing(self, module, t, out):
        mo = getattr(self, "make_out", "")
        rel = module.replace(".", "/") + ".v"
        m = re.search(r'File "\./[^"]*", line \d+[^\n]*\n(?:.*\n){0,12}?Error:.*(?:\n.+){0,6}', mo)
        if m:
            return "coq error: " + m.group(0)
        return "not provable/defined (%s): %s" % (rel, out.strip()[-400:])

    def coqchk(self, modules, timeout=2400):
        """Thorough tier: re-check the compiled property modules (and everything they depend on) with the
        independent checker and record the axioms it reports (`coqchk -silent -o`)."""
        t = time.time()
        cmd = ["coqchk", "-silent", "-o", "-Q", ".", "PintV"] + ["PintV." + m for m in modules]
        rc, out = sh(cmd, cwd=COQ, timeout=timeout)
        if rc != 0:   # a concurrent make may have been rewriting a .vo: retry once under the lock
            with Lock("coq"):
                rc, out = sh(cmd, cwd=COQ, timeout=timeout)
        self.log("coqchk %s: rc=%d %.1fs" % (" ".join(modules), rc, time.time() - t))
        summ = out[out.find("CONTEXT SUMMARY"):] if "CONTEXT SUMMARY" in out else out[-1500:]
        ax = re.search(r"\* Axioms:(.*?)\n\s*\n\* Constants", summ, re.S)
        axioms = " ".join((ax.group(1) if ax else "?").split())
        self.cov["coqchk"] = {"rc": rc, "axioms": axioms, "summary": " ".join(summ.split())[:1500]}
        ok = (rc == 0 and "type-in-type: <none>" in summ and "unsafe (co)fixpoints: <none>" in summ
              and "positivity is assumed: <none>" in summ)
        self.obligations.append({"name": "coqchk(" + ",".join(modules) + ")", "ok": ok, "assumptions": "coqchk axioms: " + axioms})
        if not ok:
            self.broken.append("coqchk does not accept the compiled development: " + summ[-800:])
        return ok

    def coqc_cases(self, files, timeout=900):
        """Compile case files in parallel; returns {file: stdout}."""
        procs = []
        res = {}
        pending = list(files)
        running = []
        while pending or running:
            while pending and len(running) < NPROC:
                f = pending.pop(0)
                p = subprocess.Popen(["timeout", str(timeout), "coqc", "-Q", COQ, "PintV", f], cwd=os.path.dirname(f),
                                     stdout=subprocess.PIPE, stderr=subprocess.STDOUT)
                running.append((f, p))
            f, p = running.pop(0)
            out = p.communicate()[0].decode("utf-8", "replace")
            res[f] = (p.returncode, out)
        return res

    # ---------------------------------------------------------------- harness
    def build_harness(self):
        """Build pint and this property's pint-verif-<prop> from SRC's working tree (overlay, tag verif).

        harness/common/*.go + harness/<prop>/*.go form package main at cmd/pint-verif-<prop>;
        harness/<prop>/export_<pkg>.go (use __ for / in pkg) is injected as internal/<pkg>/zz_verif_export_<prop>.go."""
        tag = hashlib.md5(SRC.encode()).hexdigest()[:8]
        with Lock("gobuild-" + tag):
            repl = {}
            cmddir = os.path.join(SRC, "cmd", "pint-verif-" + self.prop.lower())
            dirs = ["common", self.prop]
            uses = os.path.join(VERIF, "harness", self.prop, "uses.txt")
            if os.path.exists(uses):
                # extra shared harness directories (harness/<name>/), one per line
                dirs[1:1] = [l.strip() for l in open(uses) if l.strip() and not l.startswith("#")]
            for d in dirs:
                hdir = os.path.join(VERIF, "harness", d)
                if not os.path.isdir(hdir):
                    continue
                for f in sorted(os.listdir(hdir)):
                    if not f.endswith(".go"):
                        continue
                    m = re.match(r"export_(\w+?)\.go$", f)
                    if m:
                        pkg = m.group(1).replace("__", "/")
                        repl[os.path.join(SRC, "internal", pkg, "zz_verif_export_%s.go" % d.lower())] = os.path.join(hdir, f)
                    else:
                        repl[os.path.join(cmddir, f)] = os.path.join(hdir, f)
            ov = os.path.join(BUILD, "overlay-%s-%s.json" % (self.prop, tag))
            with open(ov, "w") as f:
                json.dump({"Replace": repl}, f, indent=1)
            self.pint = os.path.join(BUILD, "pint-%s" % tag)
            self.pv = os.path.join(BUILD, "pint-verif-%s-%s" % (self.prop, tag))
            t = time.time()
            rc, out = sh(["go", "build", "-o", self.pint, "./cmd/pint"], cwd=SRC, env=GOENV, timeout=1200)
            if rc != 0:
                self.broken.append("pint does not build from the current tree: " + out[-1500:])
                return False
            if not os.path.isdir(os.path.join(VERIF, "harness", self.prop)):
                return True
            rc, out = sh(["go", "build", "-tags", "verif", "-overlay", ov, "-o", self.pv, "./cmd/pint-verif-" + self.prop.lower()],
                         cwd=SRC, env=GOENV, timeout=1200)
            self.log("go build: %.1fs" % (time.time() - t))
            if rc != 0:
                self.broken.append("harness (overlay into the repo module) does not build against the current tree, "
                                   "correspondence cannot be established: " + out[-1500:])
                self.log(out[-3000:])
                return False
            return True

    def harness(self, args, timeout=1500):
        env = dict(GOENV, PINT_BIN=self.pint, VERIF_SEED=str(self.seed), PINT_SRC=SRC)
        t = time.time()
        rc, out = sh([self.pv] + [str(a) for a in args], cwd=self.work, env=env, timeout=timeout)
        self.log("harness %s: rc=%d %.1fs" % (" ".join(str(a) for a in args[:6]), rc, time.time() - t))
        return rc, out

    # ------------------------------------------------------------ known finds
    def known_findings(self):
        allk = []
        paths = [os.path.join(VERIF, "known_findings.json")]
        kd = os.path.join(VERIF, "known_findings.d")
        if os.path.isdir(kd):
            paths += [os.path.join(kd, f) for f in sorted(os.listdir(kd)) if f.endswith(".json")]
        for pth in paths:
            try:
                with open(pth) as f:
                    allk += json.load(f).get("findings", [])
            except FileNotFoundError:
                pass
        return [k for k in allk if k.get("property") == self.prop and k.get("status") == "open"]

    # ---------------------------------------------------------------- verdict
    def add_violation(self, what, replay):
        self.violations.append({"what": what, "replay": replay})

    def finish(self, level="proof", rule="", samples=None, evaluations=0, distinct_nontrivial=0,
               checker_cmd="", trusted_base=None, extra=None):
        wall = time.time() - self.t0
        rdir = os.path.join(REPLAYS, self.prop)
        lines = []
        rc = 0
        nviol = 0
        for i, v in enumerate(self.violations[:5]):
            rp = os.path.join(rdir, "violation_%d.json" % i)
            with open(rp, "w") as f:
                json.dump({"property": self.prop, "kind": "failing-input", "what": v["what"], "case": v["replay"],
                           "seed": self.seed, "tier": self.tier, "broken": self.broken}, f, indent=1, default=str)
            lines.append("VIOLATION property=%s replay=%s" % (self.prop, os.path.relpath(rp, VERIF)))
            nviol += 1
            rc = 1
        if not self.violations and self.broken:
            rp = os.path.join(rdir, "broken_obligation.json")
            with open(rp, "w") as f:
                json.dump({"property": self.prop, "kind": "broken-obligation-or-correspondence",
                           "broken": self.broken, "seed": self.seed, "tier": self.tier,
                           "note": "no concrete failing input was found by the search; the named theorem / correspondence "
                                   "no longer checks against the current source"}, f, indent=1, default=str)
            lines.append("VIOLATION property=%s replay=%s no-failing-input-found" % (self.prop, os.path.relpath(rp, VERIF)))
            nviol += 1
            rc = 1
        nob = len(self.obligations)
        ndis = sum(1 for o in self.obligations if o["ok"])
        cov = {
            "obligations": nob, "discharged": ndis,
            "checker_cmd": checker_cmd or "make -C coq (coqc 8.16.1, full .vo) ; coqc Assume_*.v (Print Assumptions)",
            "trusted_base": trusted_base or [],
            "evaluations": evaluations, "distinct_nontrivial": distinct_nontrivial,
            "rule": rule, "samples": samples or [],
            "theorems": [{"name": o["name"], "ok": o["ok"], "assumptions": (o["assumptions"] or "")[:300]} for o in self.obligations],
            "broken": self.broken, "known_findings_hit": self.known_hits,
        }
        if extra:
            cov.update(extra)
        ev = {"property_id": self.prop, "tier": self.tier, "seed": self.seed, "level": level,
              "coverage": cov, "assumptions": self.assumptions, "wall_s": round(wall, 2), "violations": nviol,
              "source_tree": SRC}
        with open(os.path.join(EVID, self.prop + ".json"), "w") as f:
            json.dump(ev, f, indent=1, default=str)
        for l in lines:
            print(l, flush=True)
        if rc == 0:
            print("OK property=%s tier=%s obligations=%d/%d evaluations=%d wall=%.1fs" %
                  (self.prop, self.tier, ndis, nob, evaluations, wall), flush=True)
        return rc


def parse_mismatch_output(out):
    """Our case files print lines '@@MISMATCH <id> <tag>' and a final '@@DONE <n>'."""
    mism = re.findall(r"@@MISMATCH\s+(\S+)\s*(.*)", out)
    done = re.search(r"@@DONE\s+(\d+)", out)
    return mism, (int(done.group(1)) if done else None)


# --------------------------------------------------------------------------------------------
# Standard flow shared by most properties

def parse_M(out):
    """Extract the printed mismatch list `M = [...]` from coqc output.  Returns list of (id, tag) or None."""
    m = re.search(r"M\s*=\s*(\[.*?\])\s*:\s*list", out, re.S)
    if not m:
        return None
    body = m.group(1)
    if re.fullmatch(r"\[\s*\]", body):
        return []
    items = re.findall(r"\(\s*(\d+)(?:%N)?\s*,\s*\"((?:[^\"]|\"\")*)\"(?:%string)?\s*\)", body)
    if not items:
        return [("?", body[:500])]
    return items


def standard(ctx, spec):
    """spec keys: targets, theorems{module:[names]}, harness_args(tier)->list, level, trusted_base,
    assumptions, allowed_axioms, search_args(tier)->list (optional), post(ctx, report) optional."""
    ctx.assumptions = spec.get("assumptions", [])
    ok_tr = ctx.translator()
    ok_make = ctx.make(spec["targets"]) if ok_tr or True else False
    for module, thms in spec["theorems"].items():
        ctx.check_theorems(module, thms, spec.get("allowed_axioms", ()))
    if not ok_make and not ctx.broken:
        ctx.broken.append("coq development does not build: " + getattr(ctx, "make_out", "")[-1500:])
    if ok_make and ctx.tier == "thorough" and not spec.get("no_coqchk"):
        ctx.coqchk(list(spec["theorems"].keys()))
    report = None
    mism_total = []
    if ctx.build_harness():
        report, mism_total = run_cases(ctx, spec, spec["harness_args"](ctx.tier))
        # search mode: something is broken but no concrete failing input yet -> widen the search
        if report is not None and (ctx.broken or mism_total) and not ctx.violations and spec.get("search_args"):
            ctx.log("search mode: obligation/correspondence broken, widening the search for a failing input")
            old_seed = ctx.seed
            for k in range(1, 4):
                ctx.seed = old_seed + 7919 * k
                rep2, mm2 = run_cases(ctx, spec, spec["search_args"](ctx.tier), search=True)
                if ctx.violations:
                    break
            ctx.seed = old_seed
    # known findings
    for k in ctx.known_findings():
        print("KNOWN-FINDING: property=%s %s [%s] (hits this run: %d)" %
              (ctx.prop, k.get("what", ""), k.get("id", ""), ctx.known_hits.get(k.get("id"), 0)), flush=True)
    ev = {}
    if report is not None:
        ev = dict(evaluations=report.get("evaluations", 0), distinct_nontrivial=report.get("distinct_nontrivial", 0),
                  rule=report.get("rule", ""), samples=(report.get("samples") or [])[:3],
                  extra={"input_distribution": report.get("histogram", {}), "coqchk": ctx.cov.get("coqchk"),
                         "model_vs_impl_cases": ctx.cov.get("model_cases", 0),
                         "model_vs_impl_mismatches": len(mism_total),
                         "oracle_failures": len(report.get("oracle_failures") or []),
                         "harness_notes": report.get("notes", [])})
    else:
        ev = dict(evaluations=0, distinct_nontrivial=0, rule="harness did not run", samples=[])
    return ctx.finish(level=spec.get("level", "proof"), trusted_base=spec.get("trusted_base", []), **ev)


def run_cases(ctx, spec, hargs, search=False):
    rc, out = ctx.harness(hargs, timeout=spec.get("harness_timeout", 1500))
    rpath = os.path.join(ctx.work, "report.json")
    if rc != 0 or not os.path.exists(rpath):
        # a crash of the harness itself while driving the implementation
        ctx.broken.append("harness run failed (rc=%d): %s" % (rc, out[-1500:]))
        ctx.log(out[-3000:])
        return None, []
    with open(rpath) as f:
        report = json.load(f)
    files = report.get("case_files") or []
    mism_total = []
    ncases = 0
    if files:
        t = time.time()
        res = ctx.coqc_cases(files)
        for f, (rc2, o) in sorted(res.items()):
            mm = parse_M(o)
            d = re.search(r"@@DONE\s+(\d+)", o)
            if rc2 != 0 or mm is None or not d:
                ctx.broken.append("correspondence case file %s does not evaluate: %s" % (os.path.basename(f), o[-800:]))
                continue
            ncases += int(d.group(1))
            mism_total += mm
        ctx.log("coqc cases: %d files, %d cases, %d mismatches, %.1fs" % (len(files), ncases, len(mism_total), time.time() - t))
    ctx.cov["model_cases"] = ctx.cov.get("model_cases", 0) + ncases
    cases = report.get("cases") or {}
    known_ids = set(k.get("id") for k in ctx.known_findings())
    # implementation-level oracle failures = concrete failing inputs
    for of in report.get("oracle_failures") or []:
        kid = of.get("known")
        if kid and kid in known_ids:
            ctx.known_hits[kid] = ctx.known_hits.get(kid, 0) + 1
            continue
        ctx.add_violation(of.get("what"), of.get("case"))
    for k, c in (report.get("known_findings_hit") or {}).items():
        if k in known_ids:
            ctx.known_hits[k] = ctx.known_hits.get(k, 0) + c
    if mism_total:
        ids = [m[0] for m in mism_total[:10]]
        detail = [{"id": i, "tag": t, "case": cases.get(str(i))} for i, t in mism_total[:5]]
        ctx.broken.append("correspondence: model and implementation disagree on %d case(s), e.g. %s" %
                          (len(mism_total), json.dumps(detail, default=str)[:3000]))
    return report, mism_total


def main_check(argv):
    import argparse
    import importlib.util
    ap = argparse.ArgumentParser()
    ap.add_argument("prop")
    ap.add_argument("--tier", default=os.environ.get("VERIF_TIER", "quick"))
    ap.add_argument("--replay", default=None)
    a = ap.parse_args(argv)
    seed = int(os.environ.get("VERIF_SEED", "1") or "1")
    modpath = os.path.join(VERIF, "checks", a.prop + ".py")
    if not os.path.exists(modpath):
        print("unknown property", a.prop)
        return 2
    sp = importlib.util.spec_from_file_location("chk_" + a.prop, modpath)
    mod = importlib.util.module_from_spec(sp)
    sp.loader.exec_module(mod)
    if a.replay:
        return mod.replay(a.replay) if hasattr(mod, "replay") else generic_replay(a.prop, a.replay)
    # one run per (property, source tree) at a time: runs share .work/<prop>, evidence and replays
    runlock = Lock("run-%s-%s" % (a.prop, _SRC_TAG))
    runlock.__enter__()
    ctx = Ctx(a.prop, a.tier if a.tier in ("quick", "thorough") else "quick", seed)
    try:
        return mod.run(ctx)
    except Exception as e:  # machinery failure: never silently pass
        import traceback
        traceback.print_exc()
        ctx.broken.append("check machinery raised: %r" % (e,))
        return ctx.finish(level="proof", rule="machinery error", evaluations=0, distinct_nontrivial=0)


def generic_replay(prop, path):
    with open(path if os.path.isabs(path) else os.path.join(VERIF, path)) as f:
        d = json.load(f)
    print(json.dumps(d, indent=1)[:20000])
    return 0
